//! Self-tests of the machinery: determinism of runs and conformance of
//! SimFs (through the shim) to the real kernel (through the passthrough
//! backend of the same shim).

use crate::runner::*;
use kismet_vfs::filetime::{self, FileTime};
use kismet_vfs::kernel::{self as k, Rng64, Sim, Tape};
use kismet_vfs::simfs::{AtimePolicy, FsCfg, SimFs};
use kismet_vfs::std::fs::{self, File, OpenOptions};
use std::io::{Read, Write};
use std::os::unix::fs::{MetadataExt, PermissionsExt};
use std::sync::atomic::{AtomicU64, Ordering};
use std::sync::Mutex;

/// Digest of `runs` runs of every check: everything a run decided and did.
pub fn digest(checks: &[Box<dyn Check>], seed: u64, runs: u64, workers: usize) -> Vec<(String, u64, u64)> {
    let mut out = Vec::new();
    for c in checks {
        let next = AtomicU64::new(0);
        let res: Mutex<Vec<(u64, u64)>> = Mutex::new(Vec::new());
        // fewer runs for the slow enumerating checks
        let n = match c.id() {
            "C02" | "C18" | "C20" | "C10" => (runs / 10).max(3),
            _ => runs,
        };
        std::thread::scope(|s| {
            for _ in 0..workers.max(1) {
                s.spawn(|| loop {
                    let i = next.fetch_add(1, Ordering::Relaxed);
                    if i >= n {
                        break;
                    }
                    let mut tape = Tape::random(run_seed(seed, c.id(), i));
                    let o = c.run(&mut tape, &RunCtx { tier: Tier::Quick, index: i, detail: false });
                    let mut h = mix(o.sig, o.steps);
                    h = mix(h, o.sim_ns as u64);
                    h = mix(h, o.violation.is_some() as u64);
                    for (kk, v) in o.counters.iter() {
                        h = mix(h, hash_str(kk) ^ *v);
                    }
                    for v in tape.rec.iter() {
                        h = mix(h, *v);
                    }
                    res.lock().unwrap().push((i, h));
                });
            }
        });
        let mut r = res.into_inner().unwrap();
        r.sort();
        for (i, h) in r {
            out.push((c.id().to_string(), i, h));
        }
    }
    out
}

fn digest_hash(d: &[(String, u64, u64)]) -> u64 {
    let mut h = 0u64;
    for (id, i, x) in d {
        h = mix(h, hash_str(id) ^ *i);
        h = mix(h, *x);
    }
    h
}

pub fn determinism(checks: &[Box<dyn Check>], runs: u64) -> i32 {
    let seed = 4242;
    let t0 = std::time::Instant::now();
    let a = digest(checks, seed, runs, 1);
    let b = digest(checks, seed, runs, 16);
    let mut bad = 0;
    for (x, y) in a.iter().zip(b.iter()) {
        if x != y {
            if bad < 10 {
                println!("DIVERGENCE {} run {}: {:#x} (1 worker) vs {:#x} (16 workers)", x.0, x.1, x.2, y.2);
            }
            bad += 1;
        }
    }
    // two more passes in fresh OS processes
    let mut child_hashes = Vec::new();
    if let Ok(exe) = std::env::current_exe() {
        for w in [4usize, 16] {
            let o = std::process::Command::new(&exe).args(["selftest", "digest", "--runs", &runs.to_string(), "--workers", &w.to_string()]).output();
            match o {
                Ok(o) => {
                    let s = String::from_utf8_lossy(&o.stdout);
                    let h = s.lines().find_map(|l| l.strip_prefix("DIGEST ")).and_then(|x| u64::from_str_radix(x.trim(), 16).ok());
                    child_hashes.push((w, h));
                }
                Err(e) => {
                    println!("cannot spawn child: {}", e);
                    child_hashes.push((w, None));
                }
            }
        }
    }
    let mine = digest_hash(&a);
    for (w, h) in child_hashes.iter() {
        if *h != Some(mine) {
            println!("DIVERGENCE: fresh process with {} workers produced digest {:?}, expected {:#x}", w, h, mine);
            bad += 1;
        }
    }
    println!("determinism: {} runs x {} checks, each executed 4 times (1 and 16 workers in-process, 4 and 16 workers in fresh processes): {} divergences, digest {:#x}, {:.1}s", runs, checks.len(), bad, mine, t0.elapsed().as_secs_f64());
    if bad == 0 {
        0
    } else {
        1
    }
}

pub fn print_digest(checks: &[Box<dyn Check>], runs: u64, workers: usize) {
    let d = digest(checks, 4242, runs, workers);
    println!("DIGEST {:x}", digest_hash(&d));
}

// ----------------------------------------------------------------------
// Conformance: the same shim-level program on SimFs and on the real kernel
// ----------------------------------------------------------------------

#[derive(Clone, Debug)]
enum COp {
    Create(usize, Vec<u8>),
    CreateNew(usize),
    Append(usize, Vec<u8>),
    Read(usize),
    Link(usize, usize),
    Rename(usize, usize),
    Unlink(usize),
    Mkdir(usize),
    MkdirAll(usize),
    Rmdir(usize),
    Chmod(usize, u32),
    Utimes(usize, i64, i64),
    Uatime(usize, i64),
    HandleTimes(usize, Option<i64>, Option<i64>),
    Stat(usize),
    ReadDir(usize),
    OpenRw(usize),
    Truncate(usize),
    /// descriptor semantics: write through a read-only handle; partial read, rewind, read again
    RoWrite(usize),
    SeekRead(usize, u64),
    /// tempfile semantics: a NamedTempFile in a directory, its mode, persistence after drop
    TempIn(usize),
    /// symbolic links (relative target inside the tree) and lstat
    Symlink(usize, usize),
    Lstat(usize),
}

const PATHS: [&str; 14] = ["a", "b", "c", "d", "d/x", "d/y", "d/../a", "a/", "d/", "d/.", "e/f/g", "e/f", "e", "d/x/z"];

fn gen_prog(r: &mut Rng64, n: usize) -> Vec<COp> {
    let mut v = Vec::new();
    let base = 1_600_000_000i64;
    // Programs come in two flavours: with symbolic links and plain names only,
    // or without links and with the slash- and dot-terminated spellings too.
    // (Links reached through such spellings are outside what the library or
    // the harness ever does; the model does not claim conformance there.)
    let with_links = r.below(2) == 0;
    let pick = |r: &mut Rng64| {
        let i = r.below(PATHS.len() as u64) as usize;
        if with_links && (7..=9).contains(&i) { i - 7 } else { i }
    };
    for _ in 0..n {
        let p = pick(r);
        let q = pick(r);
        let op = match r.below(20) {
            0 | 1 => COp::Create(p, vec![b'x'; r.below(40) as usize + 1]),
            2 => COp::CreateNew(p),
            3 => COp::Append(p, vec![b'y'; r.below(10) as usize + 1]),
            4 => COp::Read(p),
            5 | 6 => COp::Link(p, q),
            7 | 8 => COp::Rename(p, q),
            9 => COp::Unlink(p),
            10 => COp::Mkdir(p),
            11 => COp::MkdirAll(p),
            12 => COp::Rmdir(p),
            13 => COp::Chmod(p, *[0o444u32, 0o644, 0o600, 0o400][r.below(4) as usize..].first().unwrap()),
            14 => COp::Utimes(p, base + r.below(1000) as i64, base + r.below(1000) as i64),
            15 => COp::Uatime(p, base + r.below(1000) as i64),
            16 => COp::HandleTimes(p, if r.below(2) == 0 { Some(base + r.below(1000) as i64) } else { None }, if r.below(2) == 0 { Some(base + r.below(1000) as i64) } else { None }),
            17 => COp::Stat(p),
            18 => COp::ReadDir(p),
            _ => match r.below(8) {
                5 | 6 if with_links => COp::Symlink(p, q),
                5 | 6 => COp::Stat(p),
                7 => COp::Lstat(p),
                0 => COp::OpenRw(p),
                1 => COp::Truncate(p),
                2 => COp::RoWrite(p),
                3 => COp::SeekRead(p, r.below(12)),
                _ => COp::TempIn(p),
            },
        };
        v.push(op);
    }
    v
}

fn errs<T>(r: std::io::Result<T>) -> Result<T, String> {
    r.map_err(|e| match e.raw_os_error() {
        Some(c) => format!("errno {}", c),
        None => format!("{:?}", e.kind()),
    })
}

fn run_prog(root: &str, prog: &[COp]) -> Vec<String> {
    let mut log = Vec::new();
    let path = |i: usize| format!("{}/{}", root, PATHS[i]);
    for op in prog {
        let line = match op {
            COp::Create(p, d) => format!("{:?}", errs(File::create(path(*p)).and_then(|mut f| f.write_all(d)))),
            COp::CreateNew(p) => format!("{:?}", errs(File::create_new(path(*p)).map(|_| ()))),
            COp::Append(p, d) => format!("{:?}", errs(OpenOptions::new().append(true).open(path(*p)).and_then(|mut f| f.write_all(d)))),
            COp::Read(p) => format!(
                "{:?}",
                errs(File::open(path(*p)).and_then(|mut f| {
                    let mut b = Vec::new();
                    f.read_to_end(&mut b).map(|_| b)
                }))
            ),
            COp::Link(p, q) => format!("{:?}", errs(fs::hard_link(path(*p), path(*q)))),
            COp::Rename(p, q) => format!("{:?}", errs(fs::rename(path(*p), path(*q)))),
            COp::Unlink(p) => format!("{:?}", errs(fs::remove_file(path(*p)))),
            COp::Mkdir(p) => format!("{:?}", errs(fs::create_dir(path(*p)))),
            COp::MkdirAll(p) => format!("{:?}", errs(fs::create_dir_all(path(*p)))),
            COp::Rmdir(p) => format!("{:?}", errs(fs::remove_dir(path(*p)))),
            COp::Chmod(p, m) => format!("{:?}", errs(fs::set_permissions(path(*p), fs::Permissions::from_mode(*m)))),
            COp::Utimes(p, a, m) => format!("{:?}", errs(filetime::set_file_times(path(*p), FileTime::from_unix_time(*a, 5), FileTime::from_unix_time(*m, 7)))),
            COp::Uatime(p, a) => format!("{:?}", errs(filetime::set_file_atime(path(*p), FileTime::from_unix_time(*a, 9)))),
            COp::HandleTimes(p, a, m) => format!("{:?}", errs(File::open(path(*p)).and_then(|f| filetime::set_file_handle_times(&f, a.map(|x| FileTime::from_unix_time(x, 1)), m.map(|x| FileTime::from_unix_time(x, 2)))))),
            COp::Stat(p) => format!("{:?}", errs(fs::metadata(path(*p)).map(|m| (m.is_dir(), m.len() * (!m.is_dir()) as u64, m.mode() & 0o777, if m.is_dir() { 0 } else { m.nlink() })))),
            COp::ReadDir(p) => format!(
                "{:?}",
                errs(fs::read_dir(path(*p)).map(|rd| {
                    let mut names: Vec<String> = rd.filter_map(|e| e.ok()).map(|e| e.file_name().to_string_lossy().to_string()).collect();
                    names.sort();
                    names
                }))
            ),
            COp::OpenRw(p) => format!("{:?}", errs(OpenOptions::new().read(true).write(true).open(path(*p)).map(|_| ()))),
            COp::Truncate(p) => format!("{:?}", errs(OpenOptions::new().write(true).truncate(true).open(path(*p)).map(|_| ()))),
            COp::RoWrite(p) => format!("{:?}", errs(File::open(path(*p)).and_then(|mut f| f.write(b"zz")))),
            COp::SeekRead(p, n) => format!(
                "{:?}",
                errs(File::open(path(*p)).and_then(|mut f| {
                    use std::io::{Seek, SeekFrom};
                    let mut head = vec![0u8; *n as usize];
                    let got = f.read(&mut head)?;
                    let pos = f.seek(SeekFrom::Current(0))?;
                    f.seek(SeekFrom::Start(0))?;
                    let mut all = Vec::new();
                    f.read_to_end(&mut all)?;
                    let end = f.seek(SeekFrom::End(0))?;
                    Ok((got, pos, all.len(), end))
                }))
            ),
            COp::Symlink(t, l) => {
                // relative target, resolved from the link's own directory
                let mut depth = 0usize;
                let comps: Vec<&str> = PATHS[*l].trim_end_matches('/').split('/').collect();
                for c in &comps[..comps.len() - 1] {
                    match *c {
                        ".." => depth = depth.saturating_sub(1),
                        "." | "" => {}
                        _ => depth += 1,
                    }
                }
                let target = format!("{}{}", "../".repeat(depth), PATHS[*t]);
                format!("{:?}", errs(kismet_vfs::shim_fs::symlink(&target, path(*l))))
            }
            COp::Lstat(p) => format!("{:?}", errs(fs::symlink_metadata(path(*p)).map(|m| (m.is_dir(), m.file_type().is_symlink(), m.mode() & 0o777)))),
            COp::TempIn(p) => format!(
                "{:?}",
                errs(kismet_vfs::tempfile::NamedTempFile::new_in(path(*p)).and_then(|mut t| {
                    t.write_all(b"tmp")?;
                    let m = t.as_file().metadata()?;
                    let name_ok = t.path().file_name().map(|n| n.to_string_lossy().starts_with(".tmp") && n.len() == 10).unwrap_or(false);
                    let tp = t.path().to_path_buf();
                    drop(t);
                    Ok((m.mode() & 0o777, m.len(), name_ok, fs::metadata(&tp).is_ok()))
                }))
            ),
        };
        log.push(format!("{:?} => {}", op, line));
        // state after the op: every path's type/mode/size/nlink and the
        // relation of explicitly set times
        let mut state = Vec::new();
        for i in 0..PATHS.len() {
            if let Ok(m) = fs::symlink_metadata(path(i)) {
                if m.file_type().is_symlink() {
                    state.push(format!("{}:l", PATHS[i]));
                } else if m.is_dir() {
                    state.push(format!("{}:d{:o}", PATHS[i], m.mode() & 0o777));
                } else {
                    let explicit = m.mtime() < 1_650_000_000 && m.atime() < 1_650_000_000;
                    state.push(format!("{}:f{:o},{},{},{}", PATHS[i], m.mode() & 0o777, m.len(), m.nlink(), if explicit { format!("{}.{}/{}.{}", m.atime(), m.atime_nsec(), m.mtime(), m.mtime_nsec()) } else { "-".into() }));
                }
            }
        }
        log.push(format!("   {}", state.join(" ")));
    }
    log
}

pub fn conformance(nprogs: u64) -> i32 {
    let base = if std::path::Path::new("/dev/shm").is_dir() { "/dev/shm".to_string() } else { std::env::temp_dir().to_string_lossy().to_string() };
    let mut bad = 0;
    let mut steps = 0;
    let is_root = unsafe { libc::geteuid() } == 0;
    for i in 0..nprogs {
        let mut r = Rng64::new(0xC0FFEE + i);
        let prog = gen_prog(&mut r, 20 + (i % 40) as usize);
        // real kernel, through the passthrough backend
        // nested, so that link targets climbing out of the root stay inside a
        // private area that looks the same on both sides
        let real_top = format!("{}/kismet-conf-{}-{}", base, std::process::id(), i);
        let real_root = format!("{}/n1/n2/n3", real_top);
        let _ = std::fs::remove_dir_all(&real_top);
        if std::fs::create_dir_all(&real_root).is_err() {
            println!("conformance: cannot create {}; skipped", real_root);
            return 0;
        }
        let real = run_prog(&real_root, &prog);
        // make everything removable again
        let _ = std::process::Command::new("chmod").args(["-R", "u+rwx", &real_top]).status();
        let _ = std::fs::remove_dir_all(&real_top);
        // SimFs
        let mut fs0 = SimFs::new(FsCfg { gran_ns: 1, atime: AtimePolicy::Relatime, enforce_perms: !is_root, dir_seed: i, readdir_batch: 3 }, 1_700_000_000_000_000_000);
        fs0.mkdir_all("/top/n1/n2/n3");
        let sim = Sim::new(fs0, Tape::random(i), 1, 1);
        sim.lock().procs[0].umask = 0o022;
        sim.lock().keep_trace = false;
        k::attach(&sim, None, 0);
        let simlog = run_prog("/top/n1/n2/n3", &prog);
        k::detach();
        steps += prog.len();
        if std::env::var("VERIF_CONF_ONLY").ok().and_then(|v| v.parse::<u64>().ok()) == Some(i) {
            for (a, b) in real.iter().zip(simlog.iter()) {
                println!("real: {}\nsim : {}", a, b);
                if a != b {
                    break;
                }
            }
        }
        if real != simlog {
            bad += 1;
            if bad <= 3 {
                println!("CONFORMANCE MISMATCH in program {}:", i);
                for (a, b) in real.iter().zip(simlog.iter()) {
                    if a != b {
                        println!("  real: {}\n  sim : {}", a, b);
                        break;
                    }
                }
            }
        }
    }
    println!("conformance: {} programs, {} calls compared on {} ({}): {} mismatching programs", nprogs, steps, base, if is_root { "as root: permission bits not enforced on either side" } else { "unprivileged" }, bad);
    if bad == 0 {
        0
    } else {
        1
    }
}
