//! Concurrent runs: 2-3 participants (real OS threads, one runs at a time,
//! the Sim scheduler decides who) driving short programs against shared
//! directories, with optional adversary, stale-handle mode, freeze and
//! crash.  Used by C01, C04, C05, C06 and the concurrent mode of C02.

use crate::common::*;
use crate::world::*;
use kismet_vfs::kernel::{self as k, DrawPolicy, Rec, Tape};
use std::sync::{Arc, Mutex};

#[derive(Clone, Debug)]
pub struct ConcCfg {
    /// allowed front-ends: 0 plain, 1 sharded, 2 stack
    pub fronts: Vec<u8>,
    pub capacities: Vec<usize>,
    pub max_parts: usize,
    pub max_ops: usize,
    pub max_keys: usize,
    pub ops: Vec<&'static str>,
    pub adversary: bool,
    pub stale_mode: bool,
    pub freeze: bool,
    pub crash: bool,
    pub fire: Vec<DrawPolicy>,
    pub allow_shared_handle: bool,
    pub missing_dirs: bool,
    pub preexisting: bool,
    pub clock_small: bool,
    /// sampled I/O faults on library calls in a third of the runs
    pub sampled_faults: bool,
    /// in a third of the runs everybody stalls once for two hours (staged
    /// temp files age past the limit under their owners' feet)
    pub clock_jump: bool,
    /// stale temp files (crash debris older than the age limit) are planted
    pub debris: bool,
    /// one run in `focus` (0 = never) hammers ONE key with puts/sets while the
    /// adversary deletes it repeatedly (the link-EEXIST / touch window)
    pub focus: u64,
}

#[derive(Clone, Debug)]
pub enum Step {
    Op { handle: usize, key: usize, op: Op },
    /// adversary: unlink some published file
    Unlink,
}

pub struct ConcRun {
    pub results: Vec<OpRes>,
    pub trace: Vec<Rec>,
    pub w: World,
    pub keys: Vec<KeySpec>,
    pub hspecs: Vec<HandleSpec>,
    pub programs: Vec<Vec<Step>>,
    pub part_proc: Vec<usize>,
    pub desc: Vec<String>,
    pub blocked: bool,
    pub aborted: Option<String>,
    pub frozen_at: Option<(u64, usize)>,
    pub crashed_proc: Option<usize>,
    pub sig: u64,
    pub adversary_unlinks: u64,
    pub initial: Vec<Option<u32>>,
    pub steps: u64,
    pub sim_ns: i64,
    pub switches: u64,
    pub faults: Vec<(String, u64)>,
    pub survivor_steps: u64,
    pub fs0: kismet_vfs::simfs::SimFs,
    pub main_spec: HandleSpec,
    pub initial_reader: Vec<Option<u32>>,
}

fn draw_op(t: &mut Tape, names: &[&'static str], tag: u32, is_stack: bool) -> Op {
    let plen = draw_size(t);
    loop {
        let n = *t.pick(names);
        let op = match n {
            "get" => Op::Get,
            "touch" => Op::Touch,
            "set" => {
                if is_stack && t.draw(2) == 1 {
                    Op::SetTemp { tag, plen }
                } else {
                    Op::Set { tag, plen }
                }
            }
            "put" => {
                if is_stack && t.draw(2) == 1 {
                    Op::PutTemp { tag, plen }
                } else {
                    Op::Put { tag, plen }
                }
            }
            "set_missing" => Op::Set { tag, plen: MISSING_SOURCE },
            "put_missing" => Op::Put { tag, plen: MISSING_SOURCE },
            "ensure" if is_stack => Op::Ensure { tag, plen, err: PopErr::None },
            "gou" if is_stack => Op::GetOrUpdate { action: *t.pick(&[Action::Accept, Action::Promote, Action::Replace]), judge_reads: *t.pick(&[0usize, 3]), tag, plen, err: PopErr::None },
            "ensure" | "gou" => Op::Get,
            _ => Op::Get,
        };
        return op;
    }
}

pub fn run_conc(tape: &mut Tape, cfg: &ConcCfg, detail: bool) -> ConcRun {
    let mut kn = draw_knobs(tape);
    if cfg.clock_small {
        kn.regime = *tape.pick(&[k::ClockRegime::Micros, k::ClockRegime::Tiny, k::ClockRegime::Millis]);
    }
    let mut fs = new_fs(&kn);
    let focus = cfg.focus > 0 && tape.draw(cfg.focus) == cfg.focus - 1;
    let front = *tape.pick(&cfg.fronts);
    let writer_sharded = front == 1 || (front == 2 && tape.draw(2) == 1);
    let nshards = 2 + tape.draw(3) as usize;
    let capacity = if focus { 1_000_000 } else { *tape.pick(&cfg.capacities) };
    let wroot = "/sim/c0".to_string();
    let rroot = "/sim/c1".to_string();
    let has_reader = front == 2 && tape.draw(3) != 0;
    let reader_sharded = has_reader && tape.draw(2) == 1;
    let missing = cfg.missing_dirs && tape.draw(2) == 1;
    if !missing {
        fs.mkdir_all(&wroot);
    }
    let mut dirs = vec![DirSpec { path: wroot.clone(), kind: if writer_sharded { DirKind::Sharded(nshards) } else { DirKind::Plain }, capacity: if writer_sharded { capacity.max(1) * nshards } else { capacity } }];
    if has_reader {
        if !missing {
            fs.mkdir_all(&rroot);
        }
        dirs.push(DirSpec { path: rroot.clone(), kind: if reader_sharded { DirKind::Sharded(nshards) } else { DirKind::Plain }, capacity: 1_000_000 });
    }
    // keys
    let nkeys = if focus { 1 } else { 1 + tape.draw(cfg.max_keys as u64) as usize };
    let mut keys = Vec::new();
    for i in 0..nkeys {
        let a = tape.draw(nshards.min(2) as u64) as usize;
        let b = (a + 1 + tape.draw((nshards - 1) as u64) as usize) % nshards;
        let (h, s) = solve_key(tape, nshards, (a, b));
        keys.push(KeySpec { name: format!("key{}", i), hash: h, sec: s });
    }
    // pre-existing values
    let mut initial: Vec<Option<u32>> = vec![None; nkeys];
    if cfg.preexisting && !missing {
        for (i, key) in keys.iter().enumerate() {
            if tape.draw(3) == 0 {
                let phys = if writer_sharded { format!("{}/{}", wroot, shard_dir_name(ref_shards(key.hash, key.sec, nshards).0)) } else { wroot.clone() };
                fs.mkdir_all(&phys);
                let m = fs.now - 4_000_000_000_000;
                fs.plant_file(&format!("{}/{}", phys, key.name), &make_value(&key.name, 9000 + i as u32, 5), 0o444, m - 120_000_000_000, m);
                initial[i] = Some(9000 + i as u32);
            }
        }
    }
    // the read-only level (if any) starts with some of the keys as well, so
    // that secondary hits, promotions and replacements happen from step one
    let mut initial_reader: Vec<Option<u32>> = vec![None; nkeys];
    if cfg.preexisting && has_reader && !missing {
        for (i, key) in keys.iter().enumerate() {
            if tape.draw(2) == 0 {
                let phys = if reader_sharded { format!("{}/{}", rroot, shard_dir_name(ref_shards(key.hash, key.sec, nshards).0)) } else { rroot.clone() };
                fs.mkdir_all(&phys);
                let m = fs.now - 5_000_000_000_000;
                fs.plant_file(&format!("{}/{}", phys, key.name), &make_value(&key.name, 9500 + i as u32, 5), 0o444, m - 120_000_000_000, m);
                initial_reader[i] = Some(9500 + i as u32);
            }
        }
    }
    // crash debris older than the age limit, for concurrent maintainers to
    // fight over
    if cfg.debris && !missing && tape.draw(2) == 1 {
        let mut tds: Vec<String> = Vec::new();
        if writer_sharded {
            for key in keys.iter() {
                let (a, b) = ref_shards(key.hash, key.sec, nshards);
                tds.push(format!("{}/{}/.kismet_temp", wroot, shard_dir_name(a)));
                tds.push(format!("{}/{}/.kismet_temp", wroot, shard_dir_name(b)));
            }
        } else {
            tds.push(format!("{}/.kismet_temp", wroot));
        }
        tds.sort();
        tds.dedup();
        for td in tds {
            fs.mkdir_all(&td);
            for i in 0..(1 + tape.draw(3)) {
                let m = fs.now - 7_200_000_000_000 - (i as i64) * 1_000_000_000;
                fs.plant_file(&format!("{}/.tmpSTALE{}", td, i), b"debris of a crashed writer", 0o600, m, m);
            }
        }
    }
    // participants, processes, handles
    let nparts = 2 + tape.draw((cfg.max_parts - 1) as u64) as usize;
    let shared = cfg.allow_shared_handle && tape.draw(3) == 0;
    let main_spec = match front {
        0 => HandleSpec::Plain(0),
        1 => HandleSpec::Sharded(0),
        _ => HandleSpec::Stack { writer: Some(0), readers: if has_reader { vec![1] } else { vec![] }, auto_sync: tape.draw(2) == 0, checker: CheckerKind::None },
    };
    // the upstream writer into the read-only level uses a raw handle on it
    let upstream_spec = if has_reader { Some(if reader_sharded { HandleSpec::Sharded(1) } else { HandleSpec::Plain(1) }) } else { None };
    let mut hspecs: Vec<HandleSpec> = Vec::new();
    let mut part_proc: Vec<usize> = Vec::new();
    let mut part_handle: Vec<usize> = Vec::new();
    for p in 0..nparts {
        let upstream = upstream_spec.is_some() && p == nparts - 1 && tape.draw(2) == 1;
        if upstream {
            hspecs.push(upstream_spec.clone().unwrap());
            part_proc.push(p);
            part_handle.push(hspecs.len() - 1);
        } else if shared && p > 0 {
            part_proc.push(0);
            part_handle.push(0);
        } else {
            hspecs.push(main_spec.clone());
            part_proc.push(p);
            part_handle.push(hspecs.len() - 1);
        }
    }
    let adversary = cfg.adversary && tape.draw(3) != 0;
    let mut programs: Vec<Vec<Step>> = Vec::new();
    let mut tag = 1u32;
    for p in 0..nparts {
        let nops = if focus { 2 + tape.draw(5) as usize } else { 1 + tape.draw(cfg.max_ops as u64) as usize };
        let mut prog = Vec::new();
        let is_stack = matches!(hspecs[part_handle[p]], HandleSpec::Stack { .. });
        for _ in 0..nops {
            let key = tape.draw(nkeys as u64) as usize;
            let focus_ops = ["put", "put", "put", "put", "set", "get", "touch"];
            let op = if focus { draw_op(tape, &focus_ops, tag, is_stack) } else { draw_op(tape, &cfg.ops, tag, is_stack) };
            tag += 1;
            prog.push(Step::Op { handle: part_handle[p], key, op });
        }
        programs.push(prog);
    }
    let total_parts = nparts + adversary as usize;
    if adversary {
        let n = if focus { 3 + tape.draw(6) as usize } else { 1 + tape.draw(3) as usize };
        programs.push((0..n).map(|_| Step::Unlink).collect());
        part_proc.push(nparts);
    }
    let nprocs = total_parts + 2;
    let fs0 = fs.clone();
    let readonly: Vec<usize> = Vec::new();
    let mut w = World::new(fs, &kn, tape, nprocs, total_parts, dirs.clone(), WorldCfg { readonly, check_confined: true, extra_writable: vec![] });
    w.chunk = *[8192usize, 1000, 100_000][w.draw(3) as usize..].first().unwrap();
    let mut desc = vec![kn.describe()];
    for (i, d) in dirs.iter().enumerate() {
        desc.push(format!("dir{} {} {:?} capacity={}{}", i, d.path, d.kind, d.capacity, if missing { " (missing at start)" } else { "" }));
    }
    let fire = cfg.fire[w.draw(cfg.fire.len() as u64) as usize];
    for p in 0..nprocs {
        w.script_trigger(p, vec![], fire);
        w.script_shard(p, vec![], DrawPolicy::Tape);
    }
    // scheduling
    let stay = [950u64, 850, 600, 300][w.draw(4) as usize];
    let mut frozen_at = None;
    let mut crashed_proc = None;
    let mut jumped: Option<u64> = None;
    {
        let hold = if w.draw(5) == 4 { Some((w.draw(nparts as u64) as usize, 1 + w.draw(25))) } else { None };
        let mut st = w.sim.lock();
        st.sched.stay = stay;
        // a third of the runs preempt mostly at publication / removal /
        // re-stamping calls, where the races of a lock-free protocol live
        st.sched.hot_switch = if focus { 900 } else { [0u64, 0, 750][st.tape.draw(3) as usize] };
        st.sched.hold = hold;
        st.stale_mode = cfg.stale_mode && st.tape.draw(2) == 1;
        if cfg.freeze {
            let at = 1 + st.tape.draw(120);
            let surv = st.tape.draw(nparts as u64) as usize;
            st.sched.freeze_at = Some((at, surv));
            frozen_at = Some((at, surv));
        }
        if cfg.crash {
            let victim = st.tape.draw(nparts as u64) as usize;
            let at = st.tape.draw(60);
            st.sched.crash_at = Some((part_proc[victim], at));
            crashed_proc = Some(part_proc[victim]);
        }
        st.sched.max_steps = 60_000;
        if cfg.clock_jump && st.tape.draw(3) == 0 {
            let at = 1 + st.tape.draw(80);
            st.sched.jump_at = Some((at, 7_200_000_000_000));
            jumped = Some(at);
        }
    }
    desc.push(format!("two_hour_stall_at_step={:?}", jumped));
    let mut fault_rate = 0u64;
    if cfg.sampled_faults && w.draw(3) == 0 {
        fault_rate = [10u64, 25, 50][w.draw(3) as usize];
        let rate = fault_rate;
        w.sim.lock().injector = Some(Box::new(move |info, t| {
            if !info.lib || !t.chance(rate) {
                return None;
            }
            let creating = matches!(info.kind, k::K::OpenTmp) || (info.kind == k::K::Open && info.arg & k::O_CREATE != 0);
            let es = errnos_for(info.kind, creating);
            if es.is_empty() {
                None
            } else {
                Some(es[t.draw(es.len() as u64) as usize])
            }
        }));
    }
    desc.push(format!("sampled_fault_rate_permille={} focus_one_key={}", fault_rate, focus));
    let (stale_on, hot_on) = {
        let st = w.sim.lock();
        (st.stale_mode, st.sched.hot_switch)
    };
    desc.push(format!("participants={} shared_handle={} adversary={} fire={:?} stay={} stale_mode={} freeze={:?} crash={:?} hot_switch={}", nparts, shared, adversary, fire, stay, stale_on, frozen_at, crashed_proc, hot_on));
    for (p, prog) in programs.iter().enumerate() {
        desc.push(format!("P{} (proc {}): {:?}", p, part_proc[p], prog));
    }
    // handles: one per hspec; shared handle mode clones it
    let handles: Vec<Handle> = hspecs.iter().map(|s| w.build(s)).collect();
    let results: Arc<Mutex<Vec<OpRes>>> = Arc::new(Mutex::new(Vec::new()));
    let adv_count = Arc::new(Mutex::new(0u64));
    let mut bodies: Vec<Box<dyn FnOnce() + Send + 'static>> = Vec::new();
    for (p, prog) in programs.iter().cloned().enumerate() {
        let sim = w.sim.clone();
        let proc = part_proc[p];
        let results = results.clone();
        let keys2 = keys.clone();
        let hs: Vec<Handle> = handles.clone();
        let chunk = w.chunk;
        let dirs2 = dirs.clone();
        let adv_count = adv_count.clone();
        let freeze = cfg.freeze;
        bodies.push(Box::new(move || {
            let env = OpEnv { sim: sim.clone(), proc, part: p as i32, scratch: SCRATCH.to_string(), chunk, temp_mode: None, link_from: None, src_skew_ns: 0 };
            for (i, step) in prog.iter().enumerate() {
                let op_id = (p as u32 + 1) * 1000 + i as u32;
                match step {
                    Step::Op { handle, key, op } => {
                        let r = exec_op(&env, op_id, *handle, &hs[*handle], *key, &keys2[*key], op);
                        let crashed = r.crashed;
                        results.lock().unwrap().push(r);
                        if crashed {
                            return;
                        }
                        if freeze {
                            // the survivor stops once the others are frozen
                            let st = sim.lock();
                            if let Some((at, _)) = st.sched.freeze_at {
                                if st.step >= at {
                                    return;
                                }
                            }
                        }
                    }
                    Step::Unlink => {
                        k::set_op(op_id);
                        // choose a published file that exists right now
                        let target = {
                            let mut st = sim.lock();
                            let mut files: Vec<String> = Vec::new();
                            for d in dirs2.iter() {
                                for (path, s, _) in st.fs.tree(&d.path) {
                                    if !s.is_dir && matches!(classify(&dirs2, &path), Loc::Key { .. }) {
                                        files.push(path);
                                    }
                                }
                            }
                            if files.is_empty() {
                                None
                            } else {
                                let i = st.tape.draw(files.len() as u64) as usize;
                                Some(files[i].clone())
                            }
                        };
                        match target {
                            Some(t) => {
                                let r = std::panic::catch_unwind(|| kismet_vfs::std::fs::remove_file(&t));
                                if r.is_err() {
                                    return;
                                }
                                *adv_count.lock().unwrap() += 1;
                            }
                            None => {
                                // nothing to delete yet: yield through a harmless call
                                let r = std::panic::catch_unwind(|| kismet_vfs::std::fs::metadata("/tmp"));
                                if r.is_err() {
                                    return;
                                }
                            }
                        }
                    }
                }
            }
        }));
    }
    drop(handles);
    let ok = w.sim.run_participants(part_proc.clone(), bodies, 10_000);
    let mut results = std::mem::take(&mut *results.lock().unwrap());
    results.sort_by_key(|r| r.op_id);
    let trace = w.trace_from(0);
    let aborted = w.sim.lock().aborted.clone();
    let mut sig = crate::runner::hash_str(&format!("{}|{}|{}|{}|{}", front, writer_sharded, has_reader, capacity, shared));
    // schedule signature: sequence of (participant, call kind) on shared dirs
    for r in trace.iter() {
        if r.path.starts_with("/sim/c") || r.path2.starts_with("/sim/c") {
            sig = crate::runner::mix(sig, (r.part as u64) << 8 | r.kind as u64);
        }
    }
    let survivor_steps = match frozen_at {
        Some((at, surv)) => trace.iter().filter(|r| r.part == surv as i32 && r.step > at).count() as u64,
        None => 0,
    };
    let (steps, sim_ns, switches, faults) = {
        let st = w.sim.lock();
        let mut faults = Vec::new();
        if st.short_fired > 0 {
            faults.push(("fault:short_io".to_string(), st.short_fired));
        }
        if st.stale_fired > 0 {
            faults.push(("fault:estale_for_enoent".to_string(), st.stale_fired));
        }
        for ((kind, e), n) in st.faults_fired.iter() {
            faults.push((format!("fault:{:?}/{}", kind, errno_name(*e)), *n));
        }
        (st.step, st.fs.now - st.sim_start, st.switches, faults)
    };
    // give the tape back
    {
        let mut st = w.sim.lock();
        *tape = std::mem::replace(&mut st.tape, Tape::replay(Vec::new()));
        st.observer = None;
        st.injector = None;
    }
    let _ = detail;
    let adversary_unlinks = *adv_count.lock().unwrap();
    ConcRun { results, trace, w, keys, hspecs, programs, part_proc, desc, blocked: !ok, aborted, frozen_at, crashed_proc, sig, adversary_unlinks, initial, steps, sim_ns, switches, faults, survivor_steps, fs0, main_spec, initial_reader }
}

pub fn describe(run: &ConcRun, trace_lines: usize) -> Vec<String> {
    let mut v = run.desc.clone();
    v.push("--- results".to_string());
    v.extend(run.results.iter().map(|r| r.short()));
    v.push("--- trace tail".to_string());
    v.extend(trace_tail(&run.trace, trace_lines));
    v
}


/// "put onto an existing key leaves its content and queue position
/// unchanged": every operation with insert-if-absent semantics (put,
/// put_temp_file, ensure, get_or_update with Accept or Promote -- promotion
/// and the miss path publish with put) must never replace an entry that is
/// there at the instant it publishes, whoever put it there.  Returns the first
/// offending operation.
pub fn putlike_overwrite(run: &ConcRun) -> Option<crate::runner::Violation> {
    for r in run.results.iter() {
        let putlike = match &r.op {
            Op::Put { .. } | Op::PutTemp { .. } | Op::Ensure { .. } => true,
            Op::GetOrUpdate { action, .. } => *action != Action::Replace,
            _ => false,
        };
        if !putlike || r.crashed {
            continue;
        }
        for t in run.trace.iter().filter(|t| t.part == r.part && t.op == r.op_id && t.lib && t.kind == kismet_vfs::kernel::K::Rename && t.err == 0) {
            if t.ino2 != 0 && t.ino2 != t.ino && matches!(classify(&run.w.dirs, &t.path2), Loc::Key { .. }) {
                return Some(crate::runner::Violation::new("put-overwrote", format!("{} has insert-if-absent semantics but replaced the entry {} (inode {} by inode {}): {}", r.op.name(), t.path2, t.ino2, t.ino, r.short())));
            }
        }
    }
    None
}
