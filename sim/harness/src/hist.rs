//! Sequential operation histories over any mix of plain / sharded / stacked /
//! read-only handles held by 1-3 simulated processes, with all the
//! sequential oracles riding along.  Each finding is tagged with the
//! property it belongs to; a check reports the findings of its own
//! property only.
//!
//!  - map   (C11): lookups follow a key-value map; disk == model after
//!                 every operation once observed (legal) evictions are
//!                 applied; no duplicate copies across shards; sources
//!                 consumed.
//!  - sc    (C07): every maintenance episode is a legal Second Chance
//!                 outcome for the directory's capacity.
//!  - marks (C09): read marks and queue positions follow the abstract
//!                 queue model after every operation.
//!  - ro    (C15): nothing under a read-only root changes, up to atime.
//!  - content/mode: I-content / I-mode on every published file.

use crate::common::*;
use crate::runner::*;
use crate::sc_model;
use crate::world::*;
use kismet_vfs::kernel::{DrawPolicy, Tape, K};
use kismet_vfs::simfs::{SimFs, Ts};
use std::collections::BTreeMap;

#[derive(Clone, Debug)]
pub struct HistParams {
    pub max_dirs: usize,
    pub allow_sharded: bool,
    pub allow_stack: bool,
    pub allow_readonly_handles: bool,
    pub max_procs: usize,
    pub min_ops: usize,
    pub max_ops: usize,
    /// capacities: true = huge only (no eviction), false = drawn
    pub no_eviction: bool,
    /// number of dirs reserved as read-only roots (planted, never written)
    pub readonly_roots: usize,
    pub op_weights: OpWeights,
    /// finish with a pruning pass judged against the model's read marks
    pub final_prune: bool,
}

#[derive(Clone, Debug)]
pub struct OpWeights {
    pub get: u64,
    pub get_noread: u64,
    pub touch: u64,
    pub set: u64,
    pub put: u64,
    pub ensure: u64,
    pub gou: u64,
}

impl Default for OpWeights {
    fn default() -> Self {
        OpWeights { get: 3, get_noread: 1, touch: 2, set: 3, put: 3, ensure: 2, gou: 2 }
    }
}

#[derive(Clone, Debug, PartialEq)]
pub struct FileModel {
    pub tag: u32,
    /// None: either (the application read a handle the library opened
    /// without touching, so the mark depends on the atime policy)
    pub marked: Option<bool>,
}

pub struct Finding {
    pub prop: &'static str,
    pub v: Violation,
}

pub struct HistReport {
    pub findings: Vec<Finding>,
    pub counters: BTreeMap<String, u64>,
    pub sig: u64,
    pub nontrivial_evictions: u64,
    pub steps: u64,
    pub sim_ns: i64,
    pub scenario: Vec<String>,
    pub ops: Vec<String>,
    pub trace: Vec<String>,
}

pub fn shard_capacity(total: usize, n: usize) -> usize {
    let n = n.max(2);
    let total = total.max(n);
    total / n + (total % n != 0) as usize
}

fn phys_dirs(fs: &SimFs, d: &DirSpec) -> Vec<String> {
    match d.kind {
        DirKind::Plain => vec![d.path.clone()],
        DirKind::Sharded(_) => fs.list(&d.path).into_iter().filter(|(n, i)| is_shard_dir_name(n).is_some() && fs.inode(*i).is_dir()).map(|(n, _)| format!("{}/{}", d.path, n)).collect(),
    }
}

#[derive(Clone, Debug, PartialEq)]
struct DiskFile {
    phys: String,
    ino: u64,
    mtime: Ts,
    atime: Ts,
    mode: u32,
    tag: Option<u32>,
    valid: bool,
}

fn disk_view(fs: &SimFs, d: &DirSpec) -> BTreeMap<String, Vec<DiskFile>> {
    let mut out: BTreeMap<String, Vec<DiskFile>> = BTreeMap::new();
    for p in phys_dirs(fs, d) {
        for e in dir_entries(fs, &p, true) {
            let i = fs.inode(e.ino);
            let pv = parse_value(i.data());
            let valid = pv.as_ref().map(|(k, _)| *k == e.name).unwrap_or(false);
            out.entry(e.name.clone()).or_default().push(DiskFile { phys: p.clone(), ino: e.ino, mtime: e.mtime, atime: e.atime, mode: i.mode, tag: pv.map(|(_, t)| t), valid });
        }
    }
    out
}

fn lookup_order(h: &HandleSpec) -> Vec<usize> {
    match h {
        HandleSpec::Plain(d) | HandleSpec::Sharded(d) => vec![*d],
        HandleSpec::Stack { writer, readers, .. } => writer.iter().copied().chain(readers.iter().copied()).collect(),
        HandleSpec::ReadOnly { readers, .. } => readers.clone(),
    }
}

fn writer_of(h: &HandleSpec) -> Option<usize> {
    match h {
        HandleSpec::Plain(d) | HandleSpec::Sharded(d) => Some(*d),
        HandleSpec::Stack { writer, .. } => *writer,
        HandleSpec::ReadOnly { .. } => None,
    }
}

#[derive(Clone, Debug, PartialEq)]
enum Expect {
    Unit,
    Bool(bool),
    Miss,
    Hit(u32),
    ErrKind(std::io::ErrorKind),
    AnyErr,
}

pub fn run_history(tape: &mut Tape, hp: &HistParams, detail: bool) -> HistReport {
    let kn = draw_knobs(tape);
    let mut fs = new_fs(&kn);
    let mut scenario = vec![kn.describe()];
    // ---------------------------------------------------------- directories
    let ndirs = 1 + tape.draw(hp.max_dirs as u64) as usize;
    let ndirs = ndirs.max(hp.readonly_roots + 1).min(hp.max_dirs.max(hp.readonly_roots + 1));
    let mut dirs: Vec<DirSpec> = Vec::new();
    let mut first_n = 0usize;
    for i in 0..ndirs {
        let sharded = hp.allow_sharded && tape.draw(2) == 1;
        let path = format!("/sim/c{}", i);
        fs.mkdir_all(&path);
        if sharded {
            let n = 2 + tape.draw(7) as usize;
            if first_n == 0 {
                first_n = n;
            }
            let cap = if hp.no_eviction { 1_000_000 } else { *tape.pick(&[n, 2 * n, 3 * n, n + 1, 1_000_000, 5 * n]) };
            dirs.push(DirSpec { path, kind: DirKind::Sharded(n), capacity: cap });
        } else {
            let cap = if hp.no_eviction { 1_000_000 } else { *tape.pick(&[2usize, 0, 1, 3, 5, 8, 1_000_000, 4]) };
            dirs.push(DirSpec { path, kind: DirKind::Plain, capacity: cap });
        }
    }
    let ro_roots: Vec<usize> = (ndirs - hp.readonly_roots..ndirs).collect();
    let writable: Vec<usize> = (0..ndirs - hp.readonly_roots).collect();
    for (i, d) in dirs.iter().enumerate() {
        scenario.push(format!("dir{} {} {:?} capacity={}{}", i, d.path, d.kind, d.capacity, if ro_roots.contains(&i) { " READ-ONLY ROOT" } else { "" }));
    }
    // ---------------------------------------------------------- keys
    let nkeys = 2 + tape.draw(7) as usize;
    let mut keys: Vec<KeySpec> = Vec::new();
    for i in 0..nkeys {
        let (h, s) = if first_n > 0 {
            let lim = first_n.min(3) as u64;
            let a = tape.draw(lim) as usize;
            let mut b = tape.draw(lim) as usize;
            if a == b {
                b = (a + 1) % first_n;
            }
            solve_key(tape, first_n, (a, b))
        } else {
            (tape.draw_u64(), tape.draw_u64())
        };
        keys.push(KeySpec { name: format!("key{}", i), hash: h, sec: s });
    }
    // ---------------------------------------------------------- planted content
    let mut model: Vec<BTreeMap<String, FileModel>> = vec![BTreeMap::new(); ndirs];
    let mut next_tag: u32 = 1;
    for (di, d) in dirs.iter().enumerate() {
        let nplant = if ro_roots.contains(&di) { 1 + tape.draw(4) } else { tape.draw(4) } as usize;
        for _ in 0..nplant {
            let ki = tape.draw(nkeys as u64) as usize;
            let key = &keys[ki];
            if model[di].contains_key(&key.name) {
                continue;
            }
            let phys = match d.kind {
                DirKind::Plain => d.path.clone(),
                DirKind::Sharded(n) => {
                    let (a, b) = ref_shards(key.hash, key.sec, n);
                    format!("{}/{}", d.path, shard_dir_name(if tape.draw(2) == 0 { a } else { b }))
                }
            };
            fs.mkdir_all(&phys);
            let tag = next_tag;
            next_tag += 1;
            // entries of read-only roots may carry an mtime from a host whose
            // clock runs ahead
            let future = ro_roots.contains(&di) && tape.draw(4) == 3;
            let mtime = if future { fs.now + 600_000_000_000 + (tape.draw(3000) as i64) * 1_000_000_007 } else { fs.now - 3_600_000_000_000 - (tape.draw(1000) as i64) * 1_000_000_007 };
            let marked = tape.draw(2) == 1;
            let atime = if marked { mtime + (tape.draw(3) as i64) * 1_000_000_000 } else { mtime - 120_000_000_000 };
            fs.plant_file(&format!("{}/{}", phys, key.name), &make_value(&key.name, tag, 5), 0o444, atime, mtime);
            let st = fs.stat(&format!("{}/{}", phys, key.name)).unwrap();
            model[di].insert(key.name.clone(), FileModel { tag, marked: Some(st.atime >= st.mtime) });
        }
    }
    // ---------------------------------------------------------- processes and handles
    let nprocs = 1 + tape.draw(hp.max_procs as u64) as usize;
    let mut hspecs: Vec<Vec<HandleSpec>> = Vec::new();
    for _ in 0..nprocs {
        let nh = 1 + tape.draw(3) as usize;
        let mut hs = Vec::new();
        for _ in 0..nh {
            let kind = tape.draw(4);
            let spec = if kind >= 2 && hp.allow_stack {
                let writer = if !writable.is_empty() && tape.draw(8) != 7 { Some(*tape.pick(&writable)) } else { None };
                let mut readers = Vec::new();
                for d in 0..ndirs {
                    if Some(d) != writer && tape.draw(2) == 1 && readers.len() < 2 {
                        readers.push(d);
                    }
                }
                for r in &ro_roots {
                    if !readers.contains(r) && tape.draw(2) == 1 {
                        readers.push(*r);
                    }
                }
                if tape.draw(2) == 1 {
                    readers.reverse();
                }
                HandleSpec::Stack { writer, readers, auto_sync: tape.draw(2) == 0, checker: CheckerKind::None }
            } else if kind == 1 && hp.allow_readonly_handles {
                let mut readers = Vec::new();
                for d in 0..ndirs {
                    if tape.draw(2) == 1 {
                        readers.push(d);
                    }
                }
                if readers.is_empty() {
                    readers.push(tape.draw(ndirs as u64) as usize);
                }
                HandleSpec::ReadOnly { readers, checker: CheckerKind::None }
            } else {
                let d = if writable.is_empty() { 0 } else { *tape.pick(&writable) };
                match dirs[d].kind {
                    DirKind::Plain => HandleSpec::Plain(d),
                    DirKind::Sharded(_) => HandleSpec::Sharded(d),
                }
            };
            hs.push(spec);
        }
        hspecs.push(hs);
    }
    for (p, hs) in hspecs.iter().enumerate() {
        scenario.push(format!("proc{} handles: {:?}", p, hs));
    }
    let gran = kn.gran_ns;
    let mut w = World::new(fs, &kn, tape, nprocs, 1, dirs.clone(), WorldCfg { readonly: ro_roots.clone(), check_confined: true, extra_writable: vec![] });
    w.chunk = *[8192usize, 1000, 100_000][w.draw(3) as usize..].first().unwrap();
    let mut policies = Vec::new();
    for p in 0..nprocs {
        let pol = match w.draw(4) {
            0 => DrawPolicy::FireMix(300),
            1 => DrawPolicy::Const(FIRE_NOW),
            2 => DrawPolicy::Const(FIRE_LATE),
            _ => DrawPolicy::Tape,
        };
        w.script_trigger(p, vec![], pol);
        w.script_shard(p, vec![], DrawPolicy::Tape);
        policies.push(pol);
    }
    scenario.push(format!("trigger policies: {:?}", policies));
    // one history in eight is run by a user who does not own the cached files:
    // every futimens of the library fails with EPERM.  Lookups still return
    // what the map predicts; only the read marks become unknowable.
    let foreign = w.draw(8) == 7;
    if foreign {
        w.sim.lock().injector = Some(Box::new(|info, _t| if info.lib && info.kind == K::Futimens { Some(libc::EPERM) } else { None }));
        scenario.push("foreign owner: every futimens fails with EPERM".to_string());
    }
    let handles: Vec<Vec<Handle>> = hspecs.iter().map(|hs| hs.iter().map(|s| w.build(s)).collect()).collect();
    let start_now = w.with_fs(|fs| fs.now);
    let ro_before: Vec<_> = ro_roots.iter().map(|r| w.with_fs(|fs| fs.tree(&dirs[*r].path))).collect();

    // ---------------------------------------------------------- the history
    let nops = hp.min_ops + w.draw((hp.max_ops - hp.min_ops + 1) as u64) as usize;
    let mut findings: Vec<Finding> = Vec::new();
    let mut counters: BTreeMap<String, u64> = BTreeMap::new();
    let mut bump = |c: &mut BTreeMap<String, u64>, k: &str| *c.entry(k.to_string()).or_insert(0) += 1;
    let mut ops_log: Vec<String> = Vec::new();
    let mut sig = hash_str(&format!("{:?}{:?}", dirs.iter().map(|d| (&d.kind, d.capacity)).collect::<Vec<_>>(), gran));
    let mut evictions_seen = 0u64;
    let mut ep_done = 0usize;
    let mut pub_done = 0usize;
    let ow = &hp.op_weights;
    let wsum = ow.get + ow.get_noread + ow.touch + ow.set + ow.put + ow.ensure + ow.gou;

    'ops: for _opi in 0..nops {
        let p = w.draw(nprocs as u64) as usize;
        let hi = w.draw(handles[p].len() as u64) as usize;
        let ki = w.draw(nkeys as u64) as usize;
        let spec = &hspecs[p][hi];
        let is_stack = matches!(spec, HandleSpec::Stack { .. });
        let is_ro = matches!(spec, HandleSpec::ReadOnly { .. });
        let mut r = w.draw(wsum);
        let tag = next_tag;
        next_tag += 1;
        let plen = {
            let mut st = w.sim.lock();
            draw_size(&mut st.tape)
        };
        let mut pickop = |n: u64| -> bool {
            if r < n {
                true
            } else {
                r -= n;
                false
            }
        };
        let op = if pickop(ow.get) {
            Op::Get
        } else if pickop(ow.get_noread) {
            Op::GetNoRead
        } else if pickop(ow.touch) {
            Op::Touch
        } else if pickop(ow.set) {
            if is_ro {
                Op::Get
            } else if is_stack && w.draw(2) == 1 {
                Op::SetTemp { tag, plen }
            } else {
                Op::Set { tag, plen }
            }
        } else if pickop(ow.put) {
            if is_ro {
                Op::Touch
            } else if is_stack && w.draw(2) == 1 {
                Op::PutTemp { tag, plen }
            } else {
                Op::Put { tag, plen }
            }
        } else if pickop(ow.ensure) {
            if is_stack {
                Op::Ensure { tag, plen, err: PopErr::None }
            } else {
                Op::Get
            }
        } else if is_stack {
            let action = [Action::Accept, Action::Promote, Action::Replace][w.draw(3) as usize];
            Op::GetOrUpdate { action, judge_reads: [0usize, 3, 100_000][w.draw(3) as usize], tag, plen, err: PopErr::None }
        } else {
            Op::Touch
        };
        let key = &keys[ki];
        let kname = key.name.clone();

        // pre-state
        let pre_fs = w.fs_clone();
        let pre_disk: Vec<BTreeMap<String, Vec<DiskFile>>> = dirs.iter().map(|d| disk_view(&pre_fs, d)).collect();
        // one set in five of an already cached key re-imports the cached file
        // itself: the source is a hard link the application made of it (safe,
        // says the documentation); set must still consume that source
        let mut op = op;
        if let (Op::Set { plen, .. }, Some(wd)) = (&op, writer_of(spec)) {
            let plen = *plen;
            if let Some(f) = pre_disk[wd].get(&kname).and_then(|v| v.first()) {
                if f.valid && f.tag.is_some() && w.draw(5) == 0 {
                    w.link_from = Some(format!("{}/{}", f.phys, kname));
                    op = Op::Set { tag: f.tag.unwrap(), plen };
                    bump(&mut counters, "probe:set_from_link_of_cached");
                }
            }
        }
        let op = op;
        // one write in six hands over a source file whose own mtime is ahead of
        // the clock (a copy with preserved timestamps, a file server whose
        // clock runs ahead): what the entry carries is the library's stamp
        if op.is_write() && w.link_from.is_none() && w.draw(6) == 0 {
            w.src_skew_ns = *[600_000_000_000i64, 7_200_000_000_000, 3_000_000_000][w.draw(3) as usize..].first().unwrap();
            bump(&mut counters, "probe:future_dated_source");
        }
        let trace_mark = w.trace_len();
        let res = w.op(p, hi, &handles[p][hi], ki, key, &op);
        w.link_from = None;
        w.src_skew_ns = 0;
        ops_log.push(res.short());
        sig = mix(sig, hash_str(&format!("{}|{:?}|{}|{}", op.name(), spec_kind(spec), ki, short_out(&res))));
        bump(&mut counters, &format!("op:{}", op.name()));
        let post_fs = w.fs_clone();

        // collect this op's episodes and publication
        let (eps, pubs) = {
            let inv = w.inv.lock().unwrap();
            let eps: Vec<Episode> = inv.episodes[ep_done..].to_vec();
            let pubs: Vec<PubEvent> = inv.pubs[pub_done..].to_vec();
            (eps, pubs)
        };
        ep_done += eps.len();
        pub_done += pubs.len();
        let mut fail = |prop: &'static str, class: &str, msg: String| {
            findings.push(Finding { prop, v: Violation::new(class, msg).attr("op", op.name()) });
        };

        if res.panic.is_some() {
            fail("map", "panic", format!("operation panicked: {}", res.short()));
            break 'ops;
        }

        // ---- sc: each episode must be a legal Second Chance outcome
        for ep in &eps {
            let d = &dirs[ep.dir_idx];
            let cap = match d.kind {
                DirKind::Plain => d.capacity,
                DirKind::Sharded(n) => shard_capacity(d.capacity, n),
            };
            // read-only handles use capacity usize::MAX and never maintain
            match sc_model::check_maintenance(&ep.before, &ep.after(), &ep.restamped.iter().map(|r| r.0.clone()).collect::<Vec<_>>(), cap, ep.now, gran, kn.strict_order()) {
                Ok(s) => {
                    bump(&mut counters, "episodes");
                    evictions_seen += s.evicted as u64;
                    for _ in 0..s.evicted {
                        bump(&mut counters, "evictions");
                    }
                    for _ in 0..s.moved {
                        bump(&mut counters, "reprieves");
                    }
                    if s.second_pass {
                        bump(&mut counters, "probe:second_pass");
                    }
                }
                Err(e) => {
                    fail("sc", "second-chance", format!("maintenance of {} (capacity {}) during {}: {}", ep.dir, cap, res.short(), e));
                    break 'ops;
                }
            }
        }

        // ---- predict
        // the (attempted) publication splits maintenance into before/after
        let _ = &pubs;
        let pub_step = w.trace_from(trace_mark).iter().find(|r| matches!(r.kind, K::Link | K::Rename) && matches!(classify(&dirs, &r.path2), Loc::Key { .. })).map(|r| r.step);
        let order = lookup_order(spec);
        let wdir = writer_of(spec);
        let apply_eps = |model: &mut Vec<BTreeMap<String, FileModel>>, pre: bool| {
            for ep in &eps {
                let is_pre = pub_step.map(|ps| ep.step < ps).unwrap_or(true);
                if is_pre == pre {
                    for n in &ep.unlinked {
                        model[ep.dir_idx].remove(n);
                    }
                    for (n, _, _) in &ep.restamped {
                        if let Some(f) = model[ep.dir_idx].get_mut(n) {
                            f.marked = Some(false);
                        }
                    }
                }
            }
        };
        let first_hit = |model: &Vec<BTreeMap<String, FileModel>>| -> Option<(usize, u32)> { order.iter().find_map(|d| model[*d].get(&kname).map(|f| (*d, f.tag))) };
        let expect: Expect;
        // lookups happen before any maintenance of the same call
        let hit0 = first_hit(&model);
        match &op {
            Op::Get | Op::GetNoRead => {
                apply_eps(&mut model, true);
                expect = match hit0 {
                    Some((d, t)) => {
                        if let Some(f) = model[d].get_mut(&kname) {
                            f.marked = Some(true);
                        }
                        Expect::Hit(t)
                    }
                    None => Expect::Miss,
                };
            }
            Op::Touch => {
                apply_eps(&mut model, true);
                expect = match hit0 {
                    Some((d, _)) => {
                        if let Some(f) = model[d].get_mut(&kname) {
                            f.marked = Some(true);
                        }
                        Expect::Bool(true)
                    }
                    None => Expect::Bool(false),
                };
            }
            Op::Set { tag, .. } | Op::SetTemp { tag, .. } => match wdir {
                None => {
                    expect = Expect::ErrKind(std::io::ErrorKind::Unsupported);
                }
                Some(wd) => {
                    apply_eps(&mut model, true);
                    model[wd].insert(kname.clone(), FileModel { tag: *tag, marked: Some(false) });
                    expect = Expect::Unit;
                }
            },
            Op::Put { tag, .. } | Op::PutTemp { tag, .. } => match wdir {
                None => {
                    expect = Expect::ErrKind(std::io::ErrorKind::Unsupported);
                }
                Some(wd) => {
                    apply_eps(&mut model, true);
                    match model[wd].get_mut(&kname) {
                        Some(f) => f.marked = Some(true),
                        None => {
                            model[wd].insert(kname.clone(), FileModel { tag: *tag, marked: Some(false) });
                        }
                    }
                    expect = Expect::Unit;
                }
            },
            Op::Ensure { tag, .. } | Op::GetOrUpdate { tag, .. } => {
                let action = match &op {
                    Op::GetOrUpdate { action, .. } => *action,
                    _ => Action::Promote,
                };
                match hit0 {
                    Some((d, t)) if action != Action::Replace => {
                        model[d].get_mut(&kname).unwrap().marked = Some(true);
                        let primary = Some(d) == wdir;
                        if !primary && action == Action::Promote {
                            if let Some(wd) = wdir {
                                apply_eps(&mut model, true);
                                match model[wd].get_mut(&kname) {
                                    Some(f) => f.marked = Some(true),
                                    None => {
                                        model[wd].insert(kname.clone(), FileModel { tag: t, marked: Some(false) });
                                    }
                                }
                            }
                        }
                        expect = Expect::Hit(t);
                    }
                    hit => {
                        if let Some((d, _)) = hit {
                            model[d].get_mut(&kname).unwrap().marked = Some(true);
                        }
                        match wdir {
                            None => expect = Expect::Hit(*tag),
                            Some(wd) => {
                                apply_eps(&mut model, true);
                                if hit.is_some() {
                                    // replace: set, no re-read; the caller then
                                    // reads a handle opened before publication
                                    model[wd].insert(kname.clone(), FileModel { tag: *tag, marked: None });
                                    expect = Expect::Hit(*tag);
                                } else {
                                    // miss: put, then the entry is looked up again
                                    match model[wd].get_mut(&kname) {
                                        Some(f) => {
                                            f.marked = Some(true);
                                            expect = Expect::Hit(f.tag);
                                        }
                                        None => {
                                            // inserted, then handed back: whether the
                                            // hand-back is a fresh lookup (marks) or the
                                            // handle already open (does not) is not
                                            // something C09 states
                                            model[wd].insert(kname.clone(), FileModel { tag: *tag, marked: None });
                                            expect = Expect::Hit(*tag);
                                        }
                                    }
                                }
                            }
                        }
                    }
                }
            }
            Op::TempDir => {
                expect = Expect::AnyErr;
            }
        }
        apply_eps(&mut model, false);
        if foreign {
            for m in model.iter_mut() {
                for f in m.values_mut() {
                    if f.marked == Some(true) {
                        f.marked = None;
                    }
                }
            }
        }
        // an entry evicted right after its own insertion (post-publication
        // maintenance) leaves the re-read of ensure with its private handle
        if let (Some(wd), true) = (wdir, matches!(op, Op::Ensure { .. } | Op::GetOrUpdate { .. })) {
            let _ = wd;
        }

        // ---- map: result
        let got = match &res.out {
            Ok(Out::Unit) => Expect::Unit,
            Ok(Out::Bool(b)) => Expect::Bool(*b),
            Ok(Out::Miss) => Expect::Miss,
            Ok(Out::Hit { data, .. }) => {
                if op == Op::GetNoRead {
                    match &expect {
                        Expect::Hit(t) => Expect::Hit(*t),
                        _ => Expect::Hit(0),
                    }
                } else {
                    match parse_value(data) {
                        Some((k, t)) if k == kname => Expect::Hit(t),
                        _ => {
                            fail("content", "content", format!("lookup returned {} for {}: {}", describe_bytes(data), kname, res.short()));
                            break 'ops;
                        }
                    }
                }
            }
            Ok(Out::Path(_)) => Expect::Unit,
            Err(e) => Expect::ErrKind(e.kind),
        };
        if got != expect {
            fail("map", "map-mismatch", format!("expected {:?}, got {:?}: {}", expect, got, res.short()));
            break 'ops;
        }
        if res.out.is_ok() && op.is_write() && res.source_left {
            fail("map", "source-not-consumed", format!("source file still exists after a successful write: {}", res.short()));
            break 'ops;
        }

        // ---- map: disk == model, no duplicates
        let post_disk: Vec<BTreeMap<String, Vec<DiskFile>>> = dirs.iter().map(|d| disk_view(&post_fs, d)).collect();
        for (di, d) in dirs.iter().enumerate() {
            for (name, copies) in post_disk[di].iter() {
                if copies.len() > 1 {
                    fail("map", "duplicate", format!("{} holds {} copies of {} ({:?}) after {}", d.path, copies.len(), name, copies.iter().map(|c| &c.phys).collect::<Vec<_>>(), res.short()));
                    break 'ops;
                }
                let c = &copies[0];
                if !c.valid {
                    fail("content", "content", format!("{}/{} is not a complete value for its key", c.phys, name));
                    break 'ops;
                }
                match model[di].get(name) {
                    None => {
                        fail("map", "disk-extra", format!("{}/{} exists but the model has no such entry after {}", c.phys, name, res.short()));
                        break 'ops;
                    }
                    Some(f) => {
                        if Some(f.tag) != c.tag {
                            fail("map", "disk-value", format!("{}/{} holds tag {:?}, model says {} after {}", c.phys, name, c.tag, f.tag, res.short()));
                            break 'ops;
                        }
                        let disk_marked = c.atime >= c.mtime;
                        if f.marked.is_some() && Some(disk_marked) != f.marked {
                            fail("marks", "mark", format!("{}/{}: on disk {} (atime {} mtime {}), model says {} after {} [{}]", c.phys, name, if disk_marked { "READ" } else { "unread" }, c.atime, c.mtime, if f.marked == Some(true) { "READ" } else { "unread" }, res.short(), kn.describe()));
                            break 'ops;
                        }
                    }
                }
            }
            for name in model[di].keys() {
                if !post_disk[di].contains_key(name) {
                    fail("map", "disk-missing", format!("{} lost {} without an eviction episode during {}", d.path, name, res.short()));
                    break 'ops;
                }
            }
        }

        // ---- marks: queue positions
        let restamped: Vec<(String, String)> = eps.iter().flat_map(|e| e.restamped.iter().map(move |(n, _, _)| (e.dir.clone(), n.clone()))).collect();
        let restamped_post: Vec<(String, String)> = eps.iter().filter(|e| pub_step.map(|ps| e.step > ps).unwrap_or(false)).flat_map(|e| e.restamped.iter().map(move |(n, _, _)| (e.dir.clone(), n.clone()))).collect();
        for di in 0..dirs.len() {
            for (name, copies) in post_disk[di].iter() {
                let c = &copies[0];
                let before = pre_disk[di].get(name).and_then(|v| v.iter().find(|b| b.ino == c.ino));
                // a set whose source is a hard link of the entry itself keeps the
                // inode and, being a set, re-queues it: judged as freshly written
                let requeued_by_set = *name == kname && writer_of(spec) == Some(di) && matches!(op, Op::Set { .. } | Op::SetTemp { .. }) && res.out.is_ok();
                if let Some(b) = before.filter(|_| !requeued_by_set) {
                    if restamped.contains(&(c.phys.clone(), name.clone())) {
                        continue;
                    }
                    if b.mtime != c.mtime {
                        fail("marks", "reordered", format!("{}/{}: queue position changed {} -> {} by {}", c.phys, name, b.mtime, c.mtime, res.short()));
                        break 'ops;
                    }
                    let is_target = *name == kname;
                    if !is_target && b.atime != c.atime {
                        fail("marks", "stray-atime", format!("{}/{}: atime changed {} -> {} although the operation was {}", c.phys, name, b.atime, c.atime, res.short()));
                        break 'ops;
                    }
                    if b.mode != c.mode {
                        fail("map", "mode-changed", format!("{}/{} mode changed {:o} -> {:o}", c.phys, name, b.mode, c.mode));
                        break 'ops;
                    }
                } else if *name == kname {
                    // freshly written by this operation: newest rank in its
                    // directory (entries re-queued afterwards excepted)
                    for (oname, ocopies) in post_disk[di].iter() {
                        let o = &ocopies[0];
                        if o.phys != c.phys || oname == name {
                            continue;
                        }
                        // only a sharded cache maintains the shard it just wrote to
                        // *after* the insertion ("estimate says far too big"); a
                        // plain directory is always maintained before it
                        if matches!(dirs[di].kind, DirKind::Sharded(_)) && restamped_post.contains(&(o.phys.clone(), oname.clone())) {
                            continue;
                        }
                        if o.mtime > c.mtime {
                            fail("marks", "not-newest", format!("{}/{} was just written (rank {}) but {} has rank {} after {}", c.phys, name, c.mtime, oname, o.mtime, res.short()));
                            break 'ops;
                        }
                    }
                }
            }
        }
    }

    // ---------------------------------------------------------- end of history
    // Behavioural cross-check of the read marks: shrink every directory with
    // a pruning pass and judge the victims with the *model's* marks, not with
    // the on-disk predicate the library itself evaluates.
    if hp.final_prune && findings.is_empty() {
        w.enter(0);
        'prune: for (di, d) in dirs.iter().enumerate() {
            if ro_roots.contains(&di) {
                continue;
            }
            let phys = w.with_fs(|fs| phys_dirs(fs, d));
            for pd in phys {
                let entries = w.with_fs(|fs| dir_entries(fs, &pd, true));
                if entries.len() < 2 {
                    continue;
                }
                let cap = w.draw(entries.len() as u64) as usize;
                let known = entries.iter().all(|e| model[di].get(&e.name).map(|f| f.marked.is_some()).unwrap_or(false));
                if !known {
                    continue;
                }
                let eps_before = w.inv.lock().unwrap().episodes.len();
                let r = kismet_cache::raw_cache::prune(std::path::PathBuf::from(&pd), cap);
                if r.is_err() {
                    continue;
                }
                let ep = {
                    let inv = w.inv.lock().unwrap();
                    inv.episodes[eps_before..].iter().find(|e| e.dir == pd).cloned()
                };
                let ep = match ep {
                    Some(e) => e,
                    None => continue,
                };
                // the model's view of the queue: rank from disk, mark from the model
                let model_before: Vec<sc_model::Entry> = ep
                    .before
                    .iter()
                    .map(|e| {
                        let marked = model[di].get(&e.name).and_then(|f| f.marked).unwrap_or(false);
                        sc_model::Entry { name: e.name.clone(), mtime: e.mtime, atime: if marked { e.mtime } else { e.mtime - 1 }, ino: e.ino }
                    })
                    .collect();
                let after_model = ep.after_of(&model_before);
                let names: Vec<String> = ep.restamped.iter().map(|r| r.0.clone()).collect();
                bump(&mut counters, "final_prunes");
                if let Err(e) = sc_model::check_maintenance(&model_before, &after_model, &names, cap, ep.now, gran, kn.strict_order()) {
                    findings.push(Finding { prop: "marks", v: Violation::new("marks-not-honoured", format!("pruning {} to {} entries did not treat the entries as the history marked them (READ = looked up / touched / put-onto since its last write): {} [{}]; model: {:?}", pd, cap, e, kn.describe(), model_before.iter().map(|e| (e.name.clone(), e.mtime, e.atime >= e.mtime)).collect::<Vec<_>>())) });
                    break 'prune;
                }
                for n in ep.unlinked.iter() {
                    model[di].remove(n);
                }
            }
        }
    }
    w.leave();
    {
        let inv = w.inv.lock().unwrap();
        for (name, msg) in inv.violations.iter() {
            let prop: &'static str = match *name {
                "readonly" => "ro",
                "content" => "content",
                "mode" => "mode",
                "immutable" => "immutable",
                "confined" => "confined",
                "nolock" => "nolock",
                _ => "other",
            };
            findings.push(Finding { prop, v: Violation::new(name, msg.clone()) });
        }
    }
    // ---- ro: snapshots of read-only roots equal up to atime
    for (i, r) in ro_roots.iter().enumerate() {
        let after = w.with_fs(|fs| fs.tree(&dirs[*r].path));
        let before = &ro_before[i];
        if before.len() != after.len() {
            findings.push(Finding { prop: "ro", v: Violation::new("readonly-snapshot", format!("read-only root {} changed: {} -> {} entries", dirs[*r].path, before.len(), after.len())) });
            continue;
        }
        for (b, a) in before.iter().zip(after.iter()) {
            let same = b.0 == a.0 && b.1.ino == a.1.ino && b.1.mode == a.1.mode && b.1.nlink == a.1.nlink && b.1.size == a.1.size && b.1.mtime == a.1.mtime && b.2 == a.2 && (a.1.atime >= b.1.atime || b.1.mtime > start_now);
            if !same {
                findings.push(Finding { prop: "ro", v: Violation::new("readonly-snapshot", format!("read-only root entry changed: {:?} -> {:?}", (&b.0, &b.1), (&a.0, &a.1))) });
                break;
            }
        }
    }
    let trace = if detail || !findings.is_empty() { trace_tail(&w.trace_from(0), 120) } else { Vec::new() };
    let fin = w.finish(tape);
    HistReport { findings, counters, sig, nontrivial_evictions: evictions_seen, steps: fin.steps, sim_ns: fin.sim_ns, scenario, ops: ops_log, trace }
}

fn spec_kind(s: &HandleSpec) -> &'static str {
    match s {
        HandleSpec::Plain(_) => "plain",
        HandleSpec::Sharded(_) => "sharded",
        HandleSpec::Stack { .. } => "stack",
        HandleSpec::ReadOnly { .. } => "ro",
    }
}

fn short_out(r: &OpRes) -> &'static str {
    match &r.out {
        Ok(Out::Unit) => "ok",
        Ok(Out::Bool(true)) => "true",
        Ok(Out::Bool(false)) => "false",
        Ok(Out::Miss) => "miss",
        Ok(Out::Hit { .. }) => "hit",
        Ok(Out::Path(_)) => "path",
        Err(_) => "err",
    }
}

/// Converts a history report into a RunOut for property `prop`.
pub fn to_runout(rep: HistReport, props: &[&str], detail: bool) -> RunOut {
    let mut out = RunOut::default();
    out.sig = rep.sig;
    out.steps = rep.steps;
    out.sim_ns = rep.sim_ns;
    for (k, v) in rep.counters.iter() {
        out.count(k, *v);
    }
    if let Some(f) = rep.findings.iter().find(|f| props.contains(&f.prop) || props.contains(&format!("{}:{}", f.prop, f.v.class).as_str())) {
        let mut v = f.v.clone();
        v.detail.extend(rep.scenario.iter().cloned());
        v.detail.extend(rep.ops.iter().cloned());
        v.detail.push("--- trace tail ---".to_string());
        v.detail.extend(rep.trace.iter().cloned());
        out.violation = Some(v);
    } else if let Some(f) = rep.findings.first() {
        out.count(&format!("other_property_findings:{}:{}", f.prop, f.v.class), 1);
        if std::env::var("VERIF_DEBUG_OTHER").is_ok() {
            eprintln!("OTHER {} {}: {}", f.prop, f.v.class, f.v.msg);
        }
    }
    if detail {
        out.sample = Some(crate::json::J::obj().set("scenario", rep.scenario.clone()).set("ops", rep.ops.iter().take(40).cloned().collect::<Vec<_>>()));
    }
    out
}

#[allow(dead_code)]
fn unused(_: K) {}
