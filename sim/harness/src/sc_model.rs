//! Independent oracle for Second Chance maintenance on a directory.
//!
//! The classical clock queue (pop lowest rank; marked => clear mark and
//! requeue at the back; else evict; stop once n - capacity entries are gone)
//! is characterised *up to the order of equally ranked entries* without
//! enumerating linear extensions:
//!
//! need = n - cap.  U = unmarked, M = marked entries.
//!  A. |U| >= need: let t be the need-th smallest rank among U.  Evicted =
//!     every unmarked entry with rank < t plus exactly need - #{U: rank < t}
//!     unmarked entries of rank t.  Reprieved (moved back, mark cleared) =
//!     every marked entry with rank < t, any subset of the marked entries
//!     of rank t, none with rank > t.
//!  B. |U| < need: every unmarked entry is evicted; r = need - |U| marked
//!     entries are evicted too, namely every marked entry with rank < t'
//!     and exactly r - #{M: rank < t'} of rank t' (t' = r-th smallest
//!     marked rank); every other marked entry is reprieved.
//! Reprieved entries re-enter the queue in rank order: if old rank a < old
//! rank b then new rank a <= new rank b, and strictly < when timestamps are
//! stored in nanoseconds and the clock strictly advances (`strict_order`).
//! Everything else is untouched.

use kismet_vfs::simfs::Ts;
use std::collections::BTreeMap;

#[derive(Clone, Debug, PartialEq)]
pub struct Entry {
    pub name: String,
    pub mtime: Ts,
    pub atime: Ts,
    pub ino: u64,
}

impl Entry {
    pub fn marked(&self) -> bool {
        self.atime >= self.mtime
    }
}

/// Checks an observed before/after pair.  `after` lacks evicted entries.
/// `now_lo` is the simulated time when maintenance started (new ranks of
/// reprieved entries must not be older than that, truncated to `gran`).
pub fn check_maintenance(before: &[Entry], after: &[Entry], restamped: &[String], cap: usize, now_lo: Ts, gran: i64, strict_order: bool) -> Result<Summary, String> {
    let n = before.len();
    let after_map: BTreeMap<&str, &Entry> = after.iter().map(|e| (e.name.as_str(), e)).collect();
    for a in after {
        if !before.iter().any(|b| b.name == a.name) {
            return Err(format!("entry {} appeared during maintenance", a.name));
        }
    }
    let mut evicted: Vec<&Entry> = Vec::new();
    let mut moved: Vec<(&Entry, &Entry)> = Vec::new();
    let mut same: Vec<&Entry> = Vec::new();
    for b in before {
        match after_map.get(b.name.as_str()) {
            None => evicted.push(b),
            Some(a) => {
                if a.ino != b.ino {
                    return Err(format!("entry {} was replaced during maintenance", b.name));
                }
                // with coarse timestamps a reprieve may store the very rank
                // the entry already had: go by the calls, not by the values
                if restamped.contains(&b.name) {
                    moved.push((b, a));
                } else if a.mtime == b.mtime && a.atime == b.atime {
                    same.push(b);
                } else {
                    return Err(format!("entry {}: times changed ({}/{} -> {}/{}) without a reprieve", b.name, b.mtime, b.atime, a.mtime, a.atime));
                }
            }
        }
    }
    if n <= cap {
        if !evicted.is_empty() || !moved.is_empty() {
            return Err(format!(
                "directory within capacity ({} <= {}) but {} deleted, {} re-stamped",
                n,
                cap,
                evicted.len(),
                moved.len()
            ));
        }
        return Ok(Summary::default());
    }
    let need = n - cap;
    if evicted.len() != need {
        return Err(format!("{} entries over capacity {}: expected exactly {} evictions, saw {} ({:?})", n, cap, need, evicted.len(), evicted.iter().map(|e| &e.name).collect::<Vec<_>>()));
    }
    let mut u_ranks: Vec<Ts> = before.iter().filter(|e| !e.marked()).map(|e| e.mtime).collect();
    u_ranks.sort();
    let mut m_ranks: Vec<Ts> = before.iter().filter(|e| e.marked()).map(|e| e.mtime).collect();
    m_ranks.sort();
    let is_moved = |e: &Entry| moved.iter().any(|(b, _)| b.name == e.name);
    let is_evicted = |e: &Entry| evicted.iter().any(|b| b.name == e.name);
    let mut second_pass = false;
    if u_ranks.len() >= need {
        let t = u_ranks[need - 1];
        for e in before {
            if !e.marked() {
                if e.mtime < t && !is_evicted(e) {
                    return Err(format!("unread entry {} (rank {}) survived while a younger unread entry (rank {}) was evicted", e.name, e.mtime, t));
                }
                if e.mtime > t && is_evicted(e) {
                    return Err(format!("unread entry {} (rank {}) evicted although older unread entries up to rank {} suffice", e.name, e.mtime, t));
                }
                if is_moved(e) {
                    return Err(format!("unread entry {} was re-stamped", e.name));
                }
            } else {
                if is_evicted(e) {
                    return Err(format!("read entry {} evicted while {} unread entries could cover the {} evictions needed", e.name, u_ranks.len(), need));
                }
                if e.mtime < t && !is_moved(e) {
                    return Err(format!("read entry {} (rank {}) precedes the last victim (rank {}) but was not moved to the back", e.name, e.mtime, t));
                }
                if e.mtime > t && is_moved(e) {
                    return Err(format!("read entry {} (rank {}) was moved back although the scan stops at rank {}", e.name, e.mtime, t));
                }
            }
        }
    } else {
        second_pass = true;
        let r = need - u_ranks.len();
        let t2 = m_ranks[r - 1];
        for e in before {
            if !e.marked() {
                if !is_evicted(e) {
                    return Err(format!("unread entry {} survived although every unread entry must go (need {}, unread {})", e.name, need, u_ranks.len()));
                }
            } else {
                if e.mtime < t2 && !is_evicted(e) {
                    return Err(format!("second pass: read entry {} (rank {}) survived while rank {} was evicted", e.name, e.mtime, t2));
                }
                if e.mtime > t2 && is_evicted(e) {
                    return Err(format!("second pass: read entry {} (rank {}) evicted out of order (threshold {})", e.name, e.mtime, t2));
                }
                if !is_evicted(e) && !is_moved(e) {
                    return Err(format!("second pass: surviving read entry {} was not moved back / unmarked", e.name));
                }
            }
        }
    }
    // properties of reprieved entries
    let lo = now_lo.div_euclid(gran.max(1)) * gran.max(1);
    for (b, a) in &moved {
        if a.atime >= a.mtime {
            return Err(format!("reprieved entry {} still carries its read mark (atime {} >= mtime {})", b.name, a.atime, a.mtime));
        }
        if a.mtime < lo {
            return Err(format!("reprieved entry {} got rank {} older than the start of maintenance {}", b.name, a.mtime, lo));
        }
        for s in &same {
            if a.mtime < s.mtime {
                return Err(format!("reprieved entry {} (new rank {}) is not at the back: untouched {} has rank {}", b.name, a.mtime, s.name, s.mtime));
            }
        }
    }
    for (b1, a1) in &moved {
        for (b2, a2) in &moved {
            // When the filesystem stores nanoseconds and the clock strictly
            // advances between any two readings, the queue order of reprieved
            // entries is representable and must survive: equal new ranks
            // would leave their order to the next directory listing.
            if strict_order && b1.mtime < b2.mtime && a1.mtime == a2.mtime {
                return Err(format!("reprieved entries {} (old rank {}) and {} (old rank {}) were given the same new rank {}: their queue order is lost", b1.name, b1.mtime, b2.name, b2.mtime, a1.mtime));
            }
            if b1.mtime < b2.mtime && a1.mtime > a2.mtime {
                return Err(format!("reprieved entries requeued out of order: {} (old {}) now {} > {} (old {}) now {}", b1.name, b1.mtime, a1.mtime, b2.name, b2.mtime, a2.mtime));
            }
        }
    }
    Ok(Summary {
        evicted: evicted.len(),
        moved: moved.len(),
        second_pass,
    })
}

#[derive(Clone, Debug, Default)]
pub struct Summary {
    pub evicted: usize,
    pub moved: usize,
    pub second_pass: bool,
}
