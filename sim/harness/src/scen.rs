//! Scenario generator shared by the crash (C02), flush (C03) and fault
//! (C18) checks: front-end x pre-state x operation x value size, plus the
//! validity oracle and the follow-up battery run by a fresh process.

use crate::common::*;
use crate::world::*;
use kismet_vfs::kernel::{DrawPolicy, Rec, Tape, K};
use kismet_vfs::simfs::{SimFs, Ts};
use std::collections::BTreeMap;

pub const HOUR: i64 = 3_600_000_000_000;

pub struct Scenario {
    pub kn: FsKnobs,
    pub fs0: SimFs,
    pub dirs: Vec<DirSpec>,
    pub spec: HandleSpec,
    pub key: KeySpec,
    pub op: Op,
    pub desc: String,
    pub nshards: usize,
    pub fire: bool,
    pub shard_script: Vec<u64>,
    pub inner_seed: u64,
    /// tag of the key's value in the write side / in the reader before the op
    pub pre_writer: Option<u32>,
    pub pre_reader: Option<u32>,
    pub has_reader: bool,
    pub writer_sharded: bool,
    pub chunk: usize,
    pub sig: u64,
}

fn plant_key(fs: &mut SimFs, dir: &str, name: &str, tag: u32, marked: bool, age_s: i64) {
    fs.mkdir_all(dir);
    let m = fs.now - age_s * 1_000_000_000;
    fs.plant_file(&format!("{}/{}", dir, name), &make_value(name, tag, 6), 0o444, if marked { m + 1_000_000_000 } else { m - 120_000_000_000 }, m);
}

pub fn draw_scenario(t: &mut Tape, ops_filter: &dyn Fn(&Op) -> bool) -> Scenario {
    let kn = draw_knobs(t);
    let mut fs = new_fs(&kn);
    let front = t.draw(4); // 0 plain raw, 1 sharded raw, 2 stack/plain, 3 stack/sharded
    let writer_sharded = front == 1 || front == 3;
    let is_stack = front >= 2;
    let nshards = 2 + t.draw(3) as usize;
    let (a, b) = (t.draw(nshards as u64) as usize, t.draw(nshards as u64) as usize);
    let b = if a == b { (a + 1) % nshards } else { b };
    let (kh, ks) = solve_key(t, nshards, (a, b));
    let key = KeySpec { name: "thekey".into(), hash: kh, sec: ks };
    let wroot = "/sim/c0".to_string();
    let rroot = "/sim/c1".to_string();
    let missing_root = t.draw(5) == 4;
    let has_reader = is_stack && t.draw(2) == 1;
    let reader_sharded = has_reader && t.draw(2) == 1;
    let pre_w = !missing_root && t.draw(5) < 2;
    let pre_r = has_reader && t.draw(2) == 1;
    let over = !missing_root && t.draw(3) == 0;
    let debris = !missing_root && t.draw(3) == 0;
    let phys_w = |s: usize| if writer_sharded { format!("{}/{}", wroot, shard_dir_name(s)) } else { wroot.clone() };
    if !missing_root {
        fs.mkdir_all(&wroot);
    }
    let mut pre_writer = None;
    if pre_w {
        let s = if t.draw(2) == 0 { a } else { b };
        plant_key(&mut fs, &phys_w(s), &key.name, 1, t.draw(2) == 1, 4000);
        pre_writer = Some(1);
    }
    let mut pre_reader = None;
    if has_reader {
        fs.mkdir_all(&rroot);
        if pre_r {
            let d = if reader_sharded { format!("{}/{}", rroot, shard_dir_name(if t.draw(2) == 0 { a } else { b })) } else { rroot.clone() };
            plant_key(&mut fs, &d, &key.name, 2, t.draw(2) == 1, 5000);
            pre_reader = Some(2);
        }
    }
    let mut capacity = 1_000_000usize;
    let mut fire = t.draw(4) == 0;
    let mut other = 0usize;
    if over {
        // populate the key's primary shard (or the plain root) and a second
        // shard so that maintenance has evictions and reprieves to make
        let m = 1 + t.draw(6) as usize;
        let d = phys_w(a);
        for i in 0..m {
            plant_key(&mut fs, &d, &format!("pop{}", i), 10 + i as u32, t.draw(2) == 1, 3000 + t.draw(100) as i64);
        }
        if writer_sharded {
            other = t.draw(nshards as u64) as usize;
            let o_eff = if other == a { (a + 1) % nshards } else { other };
            for i in 0..(1 + t.draw(4) as usize) {
                plant_key(&mut fs, &phys_w(o_eff), &format!("oth{}", i), 30 + i as u32, t.draw(2) == 1, 3000 + t.draw(100) as i64);
            }
            capacity = (1 + t.draw(m as u64) as usize) * nshards;
        } else {
            capacity = t.draw(m as u64 + 1) as usize;
        }
        fire = true;
    }
    if debris {
        let d = format!("{}/.kismet_temp", phys_w(a));
        fs.mkdir_all(&d);
        for i in 0..(1 + t.draw(3)) {
            let age = *t.pick(&[10i64, 3000, 3700, 7200, 100_000]);
            let m = fs.now - age * 1_000_000_000;
            fs.plant_file(&format!("{}/.tmpDEB{}", d, i), b"partial garbage", 0o600, m, m);
        }
    }
    let mut dirs = vec![DirSpec { path: wroot.clone(), kind: if writer_sharded { DirKind::Sharded(nshards) } else { DirKind::Plain }, capacity }];
    if has_reader {
        dirs.push(DirSpec { path: rroot.clone(), kind: if reader_sharded { DirKind::Sharded(nshards) } else { DirKind::Plain }, capacity: 1_000_000 });
    }
    let auto_sync = t.draw(4) != 3;
    let spec = match front {
        0 => HandleSpec::Plain(0),
        1 => HandleSpec::Sharded(0),
        // one stack in three compares copies, with a checker that records what
        // it is shown and accepts it (so that hits still succeed)
        _ => HandleSpec::Stack { writer: Some(0), readers: if has_reader { vec![1] } else { vec![] }, auto_sync, checker: if t.draw(3) == 0 { CheckerKind::Lenient } else { CheckerKind::None } },
    };
    let tag = 7;
    let plen = draw_size(t);
    let mut ops: Vec<Op> = if is_stack {
        vec![
            Op::Set { tag, plen },
            Op::Put { tag, plen },
            Op::SetTemp { tag, plen },
            Op::PutTemp { tag, plen },
            Op::Ensure { tag, plen, err: PopErr::None },
            Op::GetOrUpdate { action: Action::Accept, judge_reads: 3, tag, plen, err: PopErr::None },
            Op::GetOrUpdate { action: Action::Promote, judge_reads: 0, tag, plen, err: PopErr::None },
            Op::GetOrUpdate { action: Action::Replace, judge_reads: 3, tag, plen, err: PopErr::None },
            Op::Get,
            Op::Touch,
        ]
    } else {
        vec![Op::Set { tag, plen }, Op::Put { tag, plen }, Op::Get, Op::Touch, Op::TempDir]
    };
    ops.retain(|o| ops_filter(o));
    let op = ops[t.draw(ops.len() as u64) as usize].clone();
    let inner_seed = t.draw_u64();
    let chunk = *t.pick(&[8192usize, 1000, 100_000]);
    let desc = format!(
        "front={} shards={} key_shards=({},{}) missing_root={} pre_writer={:?} pre_reader={:?} reader={} over_capacity={} capacity={} fire={} debris={} auto_sync={} checker={} op={:?} chunk={} [{}]",
        ["plain", "sharded", "stack/plain", "stack/sharded"][front as usize],
        nshards,
        a,
        b,
        missing_root,
        pre_writer,
        pre_reader,
        if has_reader { if reader_sharded { "sharded" } else { "plain" } } else { "none" },
        over,
        capacity,
        fire,
        debris,
        auto_sync,
        matches!(spec, HandleSpec::Stack { checker: CheckerKind::Lenient, .. }),
        op,
        chunk,
        kn.describe()
    );
    let sig = crate::runner::hash_str(&format!("{}|{}|{}|{:?}|{:?}|{}|{}|{}|{}|{}|{}", front, missing_root, has_reader, pre_writer, pre_reader, over, debris, fire, op.name(), plen, matches!(spec, HandleSpec::Stack { checker: CheckerKind::Lenient, .. })));
    Scenario { kn, fs0: fs, dirs, spec, key, op, desc, nshards, fire, shard_script: vec![shard_draw(nshards, other)], inner_seed, pre_writer, pre_reader, has_reader, writer_sharded, chunk, sig }
}

pub struct Exec {
    pub w: World,
    pub res: OpRes,
    pub ncalls: u64,
    pub trace: Vec<Rec>,
}

/// Runs the scenario's operation as process 0 on a fresh copy of its
/// pre-state.  `setup` may arm a crash point or a fault injector.
pub fn execute(sc: &Scenario, setup: impl FnOnce(&World)) -> Exec {
    let mut tape = Tape::random(sc.inner_seed);
    let readonly = if sc.has_reader { vec![1] } else { vec![] };
    let mut w = World::new(sc.fs0.clone(), &sc.kn, &mut tape, 3, 1, sc.dirs.clone(), WorldCfg { readonly, check_confined: true, extra_writable: vec![] });
    w.chunk = sc.chunk;
    for p in 0..3 {
        w.script_trigger(p, vec![], DrawPolicy::Const(if sc.fire || p > 0 { FIRE_NOW } else { u64::MAX }));
        w.script_shard(p, if p == 0 { sc.shard_script.clone() } else { vec![] }, DrawPolicy::Const(shard_draw(sc.nshards, 0)));
    }
    setup(&w);
    let h = w.build(&sc.spec);
    let res = w.op(0, 0, &h, 0, &sc.key, &sc.op);
    drop(h);
    let ncalls = w.sim.lock().procs[0].calls;
    let trace = w.trace_from(0);
    Exec { w, res, ncalls, trace }
}

/// Validity of the tree in the crash-safety sense.
pub fn tree_validity(sc: &Scenario, w: &World) -> Vec<(&'static str, String)> {
    let fs = w.fs_clone();
    let mut out = validate_tree(&fs, &sc.dirs);
    // debris confined: every file created since the pre-state is key-named
    // (validated above), lives in a .kismet_temp, or belongs to the application
    for (p, st, _) in fs.tree("/") {
        if st.is_dir || p.starts_with(SCRATCH) || p.starts_with("/tmp") {
            continue;
        }
        if sc.fs0.stat(&p).map(|s| s.ino == st.ino).unwrap_or(false) {
            continue;
        }
        match classify(&sc.dirs, &p) {
            Loc::Key { .. } | Loc::Temp { .. } => {}
            other => out.push(("debris", format!("{} was created outside .kismet_temp ({:?})", p, other))),
        }
    }
    out
}

fn present_tag(fs: &SimFs, d: &DirSpec, name: &str) -> Vec<(String, u32, Ts, Ts)> {
    let mut v = Vec::new();
    let phys: Vec<String> = match d.kind {
        DirKind::Plain => vec![d.path.clone()],
        DirKind::Sharded(_) => fs.list(&d.path).into_iter().filter(|(n, _)| is_shard_dir_name(n).is_some()).map(|(n, _)| format!("{}/{}", d.path, n)).collect(),
    };
    for p in phys {
        let path = format!("{}/{}", p, name);
        if let Ok(st) = fs.stat(&path) {
            if !st.is_dir {
                let tag = fs.read_path(&path).and_then(|b| parse_value(&b)).map(|(_, t)| t).unwrap_or(0);
                v.push((path, tag, st.atime, st.mtime));
            }
        }
    }
    v
}

/// Tags of the key currently on disk: (write side copies, reader copies).
pub fn on_disk(sc: &Scenario, w: &World) -> (Vec<(String, u32, Ts, Ts)>, Vec<(String, u32, Ts, Ts)>) {
    let fs = w.fs_clone();
    let mut wr = present_tag(&fs, &sc.dirs[0], &sc.key.name);
    if let DirKind::Sharded(n) = sc.dirs[0].kind {
        // primary shard first: that is what a lookup returns
        let (h1, _) = ref_shards(sc.key.hash, sc.key.sec, n);
        let p1 = format!("{}/{}/", sc.dirs[0].path, shard_dir_name(h1));
        wr.sort_by_key(|x| !x.0.starts_with(&p1));
    }
    let rd = if sc.has_reader { present_tag(&fs, &sc.dirs[1], &sc.key.name) } else { Vec::new() };
    (wr, rd)
}

/// A fresh process (proc `p`) with fresh, never-evicting handles exercises
/// the surviving tree: every call must succeed with map semantics.
pub fn battery(sc: &Scenario, w: &mut World, p: usize) -> Vec<(&'static str, String)> {
    let mut out = Vec::new();
    let mut dirs = sc.dirs.clone();
    dirs[0].capacity = 100_000_000;
    let log: CheckerLog = Default::default();
    let h = build_handle(&sc.spec, &dirs, &log);
    let is_stack = matches!(sc.spec, HandleSpec::Stack { .. });
    let (wr, rd) = on_disk(sc, w);
    let mut cur_w: Option<u32> = wr.first().map(|x| x.1);
    let cur_r: Option<u32> = rd.first().map(|x| x.1);
    if wr.len() > 1 {
        // two copies can only come from concurrent writers; sequentially
        // (crash or fault) a single writer never produces them
        out.push(("duplicate", format!("two copies of the key in the write side: {:?}", wr.iter().map(|x| &x.0).collect::<Vec<_>>())));
    }
    let mut expect = |res: &OpRes, want: Result<Option<u32>, bool>, what: &str, out: &mut Vec<(&'static str, String)>| {
        if res.panic.is_some() || res.out.is_err() {
            out.push(("followup-failed", format!("{} by a fresh process failed: {}", what, res.short())));
            return;
        }
        match (&res.out, want) {
            (Ok(Out::Hit { data, .. }), Ok(Some(t))) => {
                if parse_value(data).map(|(_, x)| x) != Some(t) {
                    out.push(("followup-wrong", format!("{}: expected tag {}, got {}", what, t, describe_bytes(data))));
                }
            }
            (Ok(Out::Miss), Ok(None)) => {}
            (Ok(Out::Bool(b)), Err(wb)) if *b == wb => {}
            (Ok(Out::Unit), Ok(None)) => {}
            (o, want) => out.push(("followup-wrong", format!("{}: expected {:?}, got {:?}", what, want, o.as_ref().map(|_| res.short())))),
        }
    };
    let visible = |cw: Option<u32>| cw.or(cur_r);
    let r = w.op(p, 0, &h, 0, &sc.key, &Op::Get);
    expect(&r, Ok(visible(cur_w)), "get", &mut out);
    let r = w.op(p, 0, &h, 0, &sc.key, &Op::Touch);
    expect(&r, Err(visible(cur_w).is_some()), "touch", &mut out);
    let r = w.op(p, 0, &h, 0, &sc.key, &Op::Put { tag: 101, plen: 9 });
    expect(&r, Ok(None), "put", &mut out);
    if cur_w.is_none() {
        cur_w = Some(101);
    }
    let r = w.op(p, 0, &h, 0, &sc.key, &Op::Get);
    expect(&r, Ok(cur_w), "get after put", &mut out);
    let r = w.op(p, 0, &h, 0, &sc.key, &Op::Set { tag: 102, plen: 0 });
    expect(&r, Ok(None), "set", &mut out);
    let r = w.op(p, 0, &h, 0, &sc.key, &Op::Get);
    expect(&r, Ok(Some(102)), "get after set", &mut out);
    let fresh = KeySpec { name: "freshkey".into(), hash: sc.key.hash ^ 0x5555, sec: sc.key.sec ^ 0x3333 };
    if is_stack {
        let r = w.op(p, 0, &h, 1, &fresh, &Op::Ensure { tag: 103, plen: 4097, err: PopErr::None });
        expect(&r, Ok(Some(103)), "ensure of a fresh key", &mut out);
    } else {
        let r = w.op(p, 0, &h, 1, &fresh, &Op::Put { tag: 103, plen: 4097 });
        expect(&r, Ok(None), "put of a fresh key", &mut out);
        let r = w.op(p, 0, &h, 1, &fresh, &Op::Get);
        expect(&r, Ok(Some(103)), "get of a fresh key", &mut out);
    }
    out
}

/// Forces maintenance (incl. temp clean-up) of every physical directory of
/// the write side that has a `.kismet_temp`, as process `p`.
pub fn force_maintenance(sc: &Scenario, w: &mut World, p: usize, round: u32) -> Vec<(&'static str, String)> {
    let mut out = Vec::new();
    let mut dirs = sc.dirs.clone();
    dirs[0].capacity = 100_000_000;
    let log: CheckerLog = Default::default();
    let h = build_handle(&sc.spec, &dirs, &log);
    w.script_trigger(p, vec![], DrawPolicy::Const(FIRE_NOW));
    let fs = w.fs_clone();
    match sc.dirs[0].kind {
        DirKind::Plain => {
            let k = KeySpec { name: format!("maint{}", round), hash: 1, sec: 2 };
            let r = w.op(p, 0, &h, 2, &k, &Op::Put { tag: 200 + round, plen: 0 });
            if r.out.is_err() || r.panic.is_some() {
                out.push(("followup-failed", format!("forced maintenance failed: {}", r.short())));
            }
        }
        DirKind::Sharded(n) => {
            for (name, _) in fs.list(&sc.dirs[0].path) {
                if let Some(s) = is_shard_dir_name(&name) {
                    if s >= n || !fs.exists(&format!("{}/{}/.kismet_temp", sc.dirs[0].path, name)) {
                        continue;
                    }
                    let (hh, ss) = {
                        let mut st = w.sim.lock();
                        solve_key(&mut st.tape, n, (s, (s + 1) % n))
                    };
                    let k = KeySpec { name: format!("maint{}x{}", round, s), hash: hh, sec: ss };
                    // reset the estimates' influence: a fresh handle per shard
                    let h2 = build_handle(&sc.spec, &dirs, &log);
                    let r = w.op(p, 0, &h2, 2, &k, &Op::Put { tag: 200 + round, plen: 0 });
                    if r.out.is_err() || r.panic.is_some() {
                        out.push(("followup-failed", format!("forced maintenance of shard {} failed: {}", s, r.short())));
                    }
                }
            }
        }
    }
    drop(h);
    out
}

/// Judges what happened to the files directly inside `.kismet_temp`
/// directories between two filesystem states, given the trace in between:
/// stale at the first clean-up pass => must be gone; still young at the last
/// pass => must be intact; never cleaned => no verdict.
pub fn reclaim_verdicts(before: &SimFs, after: &SimFs, trace: &[Rec], roots: &[DirSpec]) -> Vec<(&'static str, String)> {
    let mut out = Vec::new();
    let mut verdicts: BTreeMap<&'static str, u64> = BTreeMap::new();
    for d in roots {
        for (p, st, data) in before.tree(&d.path) {
            if st.is_dir {
                continue;
            }
            let (td, _name) = match kismet_vfs::kernel::split_parent(&p) {
                Some(x) => x,
                None => continue,
            };
            if !td.ends_with("/.kismet_temp") {
                continue;
            }
            if !trace.iter().any(|r| r.kind == K::Opendir && r.path == td && r.err == 0) {
                // "removed by later maintenance of that directory": a pass that
                // listed the cache directory itself must also have gone through
                // its temporary directory
                let cache_dir = td.trim_end_matches("/.kismet_temp").to_string();
                let maintained = trace.iter().any(|r| r.lib && r.kind == K::Opendir && r.path == cache_dir && r.err == 0);
                if maintained && before.now - st.mtime > HOUR && !trace.iter().any(|r| r.kind == K::Opendir && r.path == td) {
                    out.push(("temp-not-cleaned", format!("{} was maintained (listed) but its temporary directory was never opened; {} is {} ns old", cache_dir, p, before.now - st.mtime)));
                }
                continue;
            }
            // robust to where the implementation reads the clock: a file may be
            // unlinked only if it is older than the limit at its own unlink, and
            // must be gone if it was already stale at the `before` snapshot
            let unlink = trace.iter().find(|r| r.kind == K::Unlink && r.path == p && r.err == 0);
            let still = after.stat(&p);
            match (still, unlink) {
                (Err(_), Some(u)) => {
                    if u.now - st.mtime <= HOUR && u.proc != 0 {
                        out.push(("young-temp-deleted", format!("{} (age {} ns when unlinked) was deleted by maintenance", p, u.now - st.mtime)));
                    } else {
                        *verdicts.entry("stale_removed").or_insert(0) += 1;
                    }
                }
                (Err(_), None) => {}
                (Ok(s2), _) => {
                    if before.now - st.mtime > HOUR && s2.ino == st.ino {
                        out.push(("stale-temp-kept", format!("{} (age {} ns before the maintenance round) survived maintenance of its directory", p, before.now - st.mtime)));
                    } else if s2.ino == st.ino && s2.nlink <= 1 && (s2.mtime != st.mtime || s2.mode != st.mode || after.read_path(&p).as_deref() != data.as_ref().map(|d| d.as_slice())) {
                        out.push(("young-temp-altered", format!("{} is not older than the limit but was altered", p)));
                    } else {
                        *verdicts.entry("young_kept").or_insert(0) += 1;
                    }
                }
            }
        }
    }
    let _ = verdicts;
    out
}
