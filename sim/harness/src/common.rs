//! Shared vocabulary of the checks: self-describing values, keys and an
//! independent shard mapping, cache handle specs, operations and their
//! executor, and the ride-along invariant observer.

use kismet_cache::{plain, sharded, Cache, CacheBuilder, CacheHit, CacheHitAction, Key, ReadOnlyCache, ReadOnlyCacheBuilder};
use kismet_vfs::kernel::{self as k, CrashSignal, Rec, Sim, Tape, K};
use kismet_vfs::simfs::{Ino, SimFs};
use kismet_vfs::std::fs::File;
use kismet_vfs::tempfile::NamedTempFile;
use std::collections::{BTreeMap, BTreeSet};
use std::io::{ErrorKind, Read, Write};
use std::path::{Path, PathBuf};
use std::sync::{Arc, Mutex};

// ----------------------------------------------------------------------
// Values
// ----------------------------------------------------------------------

fn pat(key: &str, tag: u32, i: usize) -> u8 {
    let mut h: u32 = 0x811c9dc5 ^ tag.wrapping_mul(0x9e3779b1);
    for b in key.as_bytes() {
        h = (h ^ *b as u32).wrapping_mul(0x01000193);
    }
    let x = h.wrapping_add((i as u32).wrapping_mul(0x85ebca6b));
    b'a' + ((x >> 13) % 26) as u8
}

/// `key|tag|plen|payload`: never empty, self-describing, unique per
/// (key, tag).
/// `plen` of a set/put whose source path names no file.
pub const MISSING_SOURCE: usize = usize::MAX;

pub fn make_value(key: &str, tag: u32, plen: usize) -> Vec<u8> {
    let mut v = format!("{}|{}|{}|", key, tag, plen).into_bytes();
    let start = v.len();
    v.resize(start + plen, 0);
    for i in 0..plen {
        v[start + i] = pat(key, tag, i);
    }
    v
}

/// Returns (key, tag) iff `bytes` is one complete value.
pub fn parse_value(bytes: &[u8]) -> Option<(String, u32)> {
    let mut parts = Vec::new();
    let mut start = 0;
    for (i, b) in bytes.iter().enumerate() {
        if *b == b'|' {
            parts.push(&bytes[start..i]);
            start = i + 1;
            if parts.len() == 3 {
                break;
            }
        }
    }
    if parts.len() != 3 {
        return None;
    }
    let key = std::str::from_utf8(parts[0]).ok()?.to_string();
    let tag: u32 = std::str::from_utf8(parts[1]).ok()?.parse().ok()?;
    let plen: usize = std::str::from_utf8(parts[2]).ok()?.parse().ok()?;
    let payload = &bytes[start..];
    if payload.len() != plen {
        return None;
    }
    for (i, b) in payload.iter().enumerate() {
        if *b != pat(&key, tag, i) {
            return None;
        }
    }
    Some((key, tag))
}

pub fn describe_bytes(b: &[u8]) -> String {
    match parse_value(b) {
        Some((k, t)) => format!("value({}#{} len={})", k, t, b.len()),
        None => {
            let head: String = b.iter().take(40).map(|c| if c.is_ascii_graphic() { *c as char } else { '?' }).collect();
            format!("INVALID(len={} head={:?})", b.len(), head)
        }
    }
}

pub const SIZES: [usize; 6] = [0, 40, 4095, 4097, 8192, 3 * 8192 + 5];

pub fn draw_size(t: &mut Tape) -> usize {
    // small sizes are the default (cheap, and 0 on an exhausted tape)
    match t.draw(10) {
        0..=3 => 0,
        4..=6 => 40,
        7 => 4095,
        8 => 8192,
        _ => *t.pick(&SIZES),
    }
}

// ----------------------------------------------------------------------
// Independent shard mapping (C12 oracle; also used to solve for keys)
// ----------------------------------------------------------------------

pub const PRIMARY_MULT: u64 = 0x1118318e21fca3f5;
pub const PRIMARY_ADD: u64 = 0x129fa3ff355eb0b2;
pub const SECONDARY_MULT: u64 = 0x778324ea04de244f;
pub const SECONDARY_ADD: u64 = 0x940cab7258b48cb6;

pub fn ref_reduce(x: u64, n: usize) -> usize {
    (((n as u128) * (x as u128)) >> 64) as usize
}

/// The documented mapping: (hash, secondary hash, n) -> two distinct shards.
pub fn ref_shards(hash: u64, sec: u64, n: usize) -> (usize, usize) {
    let n = n.max(2);
    let h1 = ref_reduce(hash.wrapping_mul(PRIMARY_MULT).wrapping_add(PRIMARY_ADD), n);
    let mut h2 = ref_reduce(sec.wrapping_mul(SECONDARY_MULT).wrapping_add(SECONDARY_ADD), n);
    if h2 == h1 {
        h2 += 1;
        if h2 >= n {
            h2 = 0;
        }
    }
    (h1, h2)
}

pub fn shard_dir_name(id: usize) -> String {
    format!(".kismet_{:04x}", id)
}

/// Finds (hash, sec) mapping to the wanted shard pair.
pub fn solve_key(t: &mut Tape, n: usize, want: (usize, usize)) -> (u64, u64) {
    let n = n.max(2);
    if n > 1024 {
        // rejection sampling needs ~n tries per coordinate: invert the mixers
        // instead (odd multiplier => bijection on u64)
        fn inv_odd(m: u64) -> u64 {
            let mut x = m;
            for _ in 0..6 {
                x = x.wrapping_mul(2u64.wrapping_sub(m.wrapping_mul(x)));
            }
            x
        }
        let lo = |j: usize| -> u64 { (((j as u128) << 64).div_ceil(n as u128)).min(u64::MAX as u128) as u64 };
        let width = u64::MAX / n as u64;
        let pre = |j: usize, t: &mut Tape, mult: u64, add: u64| -> u64 {
            let y = lo(j).wrapping_add(t.draw(width.max(2) - 1));
            y.wrapping_sub(add).wrapping_mul(inv_odd(mult))
        };
        let h = pre(want.0, t, PRIMARY_MULT, PRIMARY_ADD);
        let s = pre(want.1, t, SECONDARY_MULT, SECONDARY_ADD);
        assert_eq!(ref_shards(h, s, n), want, "solve_key: direct inversion");
        return (h, s);
    }
    let mut h = t.draw_u64();
    let mut guard = 0;
    while ref_reduce(h.wrapping_mul(PRIMARY_MULT).wrapping_add(PRIMARY_ADD), n) != want.0 {
        h = h.wrapping_mul(6364136223846793005).wrapping_add(1442695040888963407);
        guard += 1;
        assert!(guard < 1_000_000);
    }
    let mut s = t.draw_u64();
    guard = 0;
    loop {
        if ref_shards(h, s, n) == want {
            return (h, s);
        }
        s = s.wrapping_mul(6364136223846793005).wrapping_add(1442695040888963407);
        guard += 1;
        assert!(guard < 1_000_000);
    }
}

#[derive(Clone, Debug)]
pub struct KeySpec {
    pub name: String,
    pub hash: u64,
    pub sec: u64,
}

impl KeySpec {
    pub fn key(&self) -> Key<'_> {
        Key::new(&self.name, self.hash, self.sec)
    }
}

// ----------------------------------------------------------------------
// Cache directories and handles
// ----------------------------------------------------------------------

#[derive(Clone, Debug, PartialEq)]
pub enum DirKind {
    Plain,
    Sharded(usize),
}

#[derive(Clone, Debug)]
pub struct DirSpec {
    pub path: String,
    pub kind: DirKind,
    pub capacity: usize,
}

#[derive(Clone, Copy, Debug, PartialEq, Eq)]
pub enum CheckerKind {
    None,
    ByteEq,
    Panicking,
    /// byte equality that also records its invocations
    Recording,
    /// records its invocations and accepts whatever it is shown
    Lenient,
}

#[derive(Clone, Debug)]
pub enum HandleSpec {
    Plain(usize),
    Sharded(usize),
    /// Stack: optional writer dir, reader dirs, auto_sync, checker
    Stack {
        writer: Option<usize>,
        readers: Vec<usize>,
        auto_sync: bool,
        checker: CheckerKind,
    },
    ReadOnly {
        readers: Vec<usize>,
        checker: CheckerKind,
    },
}

#[derive(Clone)]
pub enum Handle {
    Plain(plain::Cache),
    Sharded(sharded::Cache),
    Stack(Cache),
    ReadOnly(ReadOnlyCache),
}

/// What a recording checker saw per call: inode and content of x and y.
pub type CheckerLog = Arc<Mutex<Vec<(Ino, Ino, Vec<u8>, Vec<u8>)>>>;

fn ino_of(f: &File) -> Ino {
    match (f.sim_fd(), k::current()) {
        (Some(fd), Some(ctx)) => ctx.sim.lock().procs[ctx.proc].fds.get(&fd).map(|e| e.ino).unwrap_or(0),
        _ => 0,
    }
}

fn recording_checker(log: CheckerLog) -> impl Fn(&mut File, &mut File) -> std::io::Result<()> + Sync + Send + std::panic::RefUnwindSafe + std::panic::UnwindSafe + 'static {
    let log = std::panic::AssertUnwindSafe(log);
    move |x: &mut File, y: &mut File| {
        let mut a = Vec::new();
        let mut b = Vec::new();
        let (ix, iy) = (ino_of(x), ino_of(y));
        x.read_to_end(&mut a)?;
        y.read_to_end(&mut b)?;
        let eq = a == b;
        log.lock().unwrap().push((ix, iy, a, b));
        if eq {
            Ok(())
        } else {
            Err(std::io::Error::new(ErrorKind::Other, "mismatch"))
        }
    }
}

fn lenient_checker(log: CheckerLog) -> impl Fn(&mut File, &mut File) -> std::io::Result<()> + Sync + Send + std::panic::RefUnwindSafe + std::panic::UnwindSafe + 'static {
    let log = std::panic::AssertUnwindSafe(log);
    move |x: &mut File, y: &mut File| {
        let mut a = Vec::new();
        let mut b = Vec::new();
        let (ix, iy) = (ino_of(x), ino_of(y));
        x.read_to_end(&mut a)?;
        y.read_to_end(&mut b)?;
        log.lock().unwrap().push((ix, iy, a, b));
        Ok(())
    }
}

pub fn build_handle(spec: &HandleSpec, dirs: &[DirSpec], log: &CheckerLog) -> Handle {
    match spec {
        HandleSpec::Plain(d) => Handle::Plain(plain::Cache::new(PathBuf::from(&dirs[*d].path), dirs[*d].capacity)),
        HandleSpec::Sharded(d) => {
            let n = match dirs[*d].kind {
                DirKind::Sharded(n) => n,
                DirKind::Plain => 2,
            };
            Handle::Sharded(sharded::Cache::new(PathBuf::from(&dirs[*d].path), n, dirs[*d].capacity))
        }
        HandleSpec::Stack {
            writer,
            readers,
            auto_sync,
            checker,
        } => {
            let mut b = CacheBuilder::new();
            if let Some(w) = writer {
                match dirs[*w].kind {
                    DirKind::Plain => {
                        b.plain_writer(&dirs[*w].path, dirs[*w].capacity);
                    }
                    DirKind::Sharded(n) => {
                        b.sharded_writer(&dirs[*w].path, n, dirs[*w].capacity);
                    }
                }
            }
            for r in readers {
                match dirs[*r].kind {
                    DirKind::Plain => {
                        b.plain_reader(&dirs[*r].path);
                    }
                    DirKind::Sharded(n) => {
                        b.sharded_reader(&dirs[*r].path, n);
                    }
                }
            }
            b.auto_sync(*auto_sync);
            match checker {
                CheckerKind::None => {}
                CheckerKind::ByteEq => {
                    b.byte_equality_checker();
                }
                CheckerKind::Panicking => {
                    b.panicking_byte_equality_checker();
                }
                CheckerKind::Recording => {
                    b.consistency_checker(recording_checker(log.clone()));
                }
                CheckerKind::Lenient => {
                    b.consistency_checker(lenient_checker(log.clone()));
                }
            }
            Handle::Stack(b.build())
        }
        HandleSpec::ReadOnly { readers, checker } => {
            let mut b = ReadOnlyCacheBuilder::new();
            for r in readers {
                match dirs[*r].kind {
                    DirKind::Plain => {
                        b.plain(&dirs[*r].path);
                    }
                    DirKind::Sharded(n) => {
                        b.sharded(&dirs[*r].path, n);
                    }
                }
            }
            match checker {
                CheckerKind::None => {}
                CheckerKind::ByteEq => {
                    b.byte_equality_checker();
                }
                CheckerKind::Panicking => {
                    b.panicking_byte_equality_checker();
                }
                CheckerKind::Recording => {
                    b.consistency_checker(recording_checker(log.clone()));
                }
                CheckerKind::Lenient => {
                    b.consistency_checker(lenient_checker(log.clone()));
                }
            }
            Handle::ReadOnly(b.build())
        }
    }
}

// ----------------------------------------------------------------------
// Operations
// ----------------------------------------------------------------------

#[derive(Clone, Copy, Debug, PartialEq, Eq, PartialOrd, Ord)]
pub enum Action {
    Accept,
    Promote,
    Replace,
}

#[derive(Clone, Copy, Debug, PartialEq, Eq)]
pub enum PopErr {
    None,
    NotFound,
    Other,
}

#[derive(Clone, Debug, PartialEq)]
pub enum Op {
    Get,
    /// get, but the application does not read the file
    GetNoRead,
    Touch,
    Set { tag: u32, plen: usize },
    Put { tag: u32, plen: usize },
    SetTemp { tag: u32, plen: usize },
    PutTemp { tag: u32, plen: usize },
    Ensure { tag: u32, plen: usize, err: PopErr },
    GetOrUpdate { action: Action, judge_reads: usize, tag: u32, plen: usize, err: PopErr },
    TempDir,
}

impl Op {
    pub fn name(&self) -> &'static str {
        match self {
            Op::Get => "get",
            Op::GetNoRead => "get_noread",
            Op::Touch => "touch",
            Op::Set { .. } => "set",
            Op::Put { .. } => "put",
            Op::SetTemp { .. } => "set_temp_file",
            Op::PutTemp { .. } => "put_temp_file",
            Op::Ensure { .. } => "ensure",
            Op::GetOrUpdate { action, .. } => match action {
                Action::Accept => "get_or_update_accept",
                Action::Promote => "get_or_update_promote",
                Action::Replace => "get_or_update_replace",
            },
            Op::TempDir => "temp_dir",
        }
    }
    pub fn is_write(&self) -> bool {
        matches!(self, Op::Set { .. } | Op::Put { .. } | Op::SetTemp { .. } | Op::PutTemp { .. })
    }
    pub fn tag(&self) -> Option<u32> {
        match self {
            Op::Set { tag, .. } | Op::Put { tag, .. } | Op::SetTemp { tag, .. } | Op::PutTemp { tag, .. } | Op::Ensure { tag, .. } | Op::GetOrUpdate { tag, .. } => Some(*tag),
            _ => None,
        }
    }
}

#[derive(Clone, Debug, PartialEq)]
pub struct FdInfo {
    pub read: bool,
    pub write: bool,
    pub off: u64,
    pub ino: Ino,
    pub path: String,
}

#[derive(Clone, Debug, PartialEq)]
pub enum Out {
    Unit,
    Bool(bool),
    Miss,
    Hit { data: Vec<u8>, fd: Option<FdInfo> },
    Path(String),
}

#[derive(Clone, Debug, PartialEq)]
pub struct Errn {
    pub kind: ErrorKind,
    pub os: Option<i32>,
    pub msg: String,
}

#[derive(Clone, Debug)]
pub struct OpRes {
    pub op_id: u32,
    pub part: i32,
    pub proc: usize,
    pub handle: usize,
    pub key: usize,
    pub op: Op,
    /// global step counter at invocation / return
    pub inv: u64,
    pub ret: u64,
    pub out: Result<Out, Errn>,
    pub panic: Option<String>,
    pub crashed: bool,
    /// judge: (was Primary, bytes it read)
    pub judge_saw: Option<(bool, Vec<u8>)>,
    pub populate_called: bool,
    pub populate_old: Option<Vec<u8>>,
    /// descriptors open in the process before / after the op
    pub fds_before: usize,
    pub fds_after: usize,
    /// the source path of a successful set/put still exists
    pub source_left: bool,
}

impl OpRes {
    pub fn short(&self) -> String {
        let out = match &self.out {
            Ok(Out::Unit) => "Ok".to_string(),
            Ok(Out::Bool(b)) => format!("Ok({})", b),
            Ok(Out::Miss) => "Ok(None)".to_string(),
            Ok(Out::Hit { data, .. }) => format!("Ok({})", describe_bytes(data)),
            Ok(Out::Path(p)) => format!("Ok({})", p),
            Err(e) => format!("Err({:?} os={:?} {})", e.kind, e.os, e.msg),
        };
        format!(
            "op{} p{}/{} h{} k{} {:?} [{}..{}] -> {}{}{}",
            self.op_id,
            self.part,
            self.proc,
            self.handle,
            self.key,
            self.op,
            self.inv,
            self.ret,
            out,
            self.panic.as_ref().map(|p| format!(" PANIC({})", p)).unwrap_or_default(),
            if self.crashed { " CRASHED" } else { "" }
        )
    }
}

thread_local! {
    pub static LAST_PANIC: std::cell::RefCell<Option<String>> = const { std::cell::RefCell::new(None) };
}

pub fn install_panic_hook() {
    std::panic::set_hook(Box::new(|info| {
        let msg = if let Some(s) = info.payload().downcast_ref::<&str>() {
            s.to_string()
        } else if let Some(s) = info.payload().downcast_ref::<String>() {
            s.clone()
        } else {
            "<non-string panic>".to_string()
        };
        let loc = info.location().map(|l| format!("{}:{}", l.file(), l.line())).unwrap_or_default();
        LAST_PANIC.with(|l| *l.borrow_mut() = Some(format!("{} at {}", msg, loc)));
        if std::env::var("VERIF_SHOW_PANICS").is_ok() {
            eprintln!("panic: {} at {}", msg, loc);
        }
    }));
}

fn write_chunked(f: &mut File, data: &[u8], chunk: usize) -> std::io::Result<()> {
    if data.is_empty() {
        return Ok(());
    }
    for c in data.chunks(chunk.max(1)) {
        f.write_all(c)?;
    }
    Ok(())
}

fn fd_info(sim: &Arc<Sim>, proc: usize, f: &File) -> Option<FdInfo> {
    let fd = f.sim_fd()?;
    let st = sim.lock();
    let e = st.procs[proc].fds.get(&fd)?;
    Some(FdInfo {
        read: e.read,
        write: e.write,
        off: e.off,
        ino: e.ino,
        path: e.path.clone(),
    })
}

fn read_hit(sim: &Arc<Sim>, proc: usize, mut f: File, read: bool) -> std::io::Result<Out> {
    let fd = fd_info(sim, proc, &f);
    let mut data = Vec::new();
    if read {
        f.read_to_end(&mut data)?;
    }
    Ok(Out::Hit { data, fd })
}

struct SourceProbe<'a> {
    left: &'a Mutex<bool>,
    path: PathBuf,
    sim: &'a Arc<Sim>,
}

impl Drop for SourceProbe<'_> {
    fn drop(&mut self) {
        if !std::thread::panicking() {
            *self.left.lock().unwrap() = self.sim.lock().fs.exists(&self.path.to_string_lossy());
        }
    }
}

pub struct OpEnv {
    pub sim: Arc<Sim>,
    pub proc: usize,
    pub part: i32,
    /// application scratch directory (same filesystem, outside every cache)
    pub scratch: String,
    /// chunk size used when the application writes values
    pub chunk: usize,
    /// mode the application gives its temp-file objects before handing them
    /// to set_temp_file / put_temp_file (None: tempfile's default 0600)
    pub temp_mode: Option<u32>,
    /// the source of the next `set` is a hard link to this (cached) file
    /// instead of a freshly written one
    pub link_from: Option<String>,
    /// the application's source file carries this mtime offset relative to the
    /// clock (a copy with preserved timestamps, a file server running ahead)
    pub src_skew_ns: i64,
}

/// Runs `f` with the thread marked as being inside a library call.
pub fn lib<R>(f: impl FnOnce() -> R) -> R {
    struct G(bool);
    impl Drop for G {
        fn drop(&mut self) {
            k::set_lib(self.0);
        }
    }
    let _g = G(k::set_lib(true));
    f()
}

fn to_errn(e: std::io::Error) -> Errn {
    Errn {
        kind: e.kind(),
        os: e.raw_os_error(),
        msg: e.to_string(),
    }
}

fn app_source(env: &OpEnv, op_id: u32, key: &str, tag: u32, plen: usize) -> std::io::Result<PathBuf> {
    let p = PathBuf::from(format!("{}/src-{}-{}", env.scratch, env.proc, op_id));
    if let Some(from) = &env.link_from {
        // re-import: the application hard-linked a cached file out earlier
        kismet_vfs::std::fs::hard_link(from, &p)?;
        return Ok(p);
    }
    let mut f = File::create(&p)?;
    write_chunked(&mut f, &make_value(key, tag, plen), env.chunk)?;
    drop(f);
    skew_source(env, &p)?;
    Ok(p)
}

/// Gives the application's freshly written source the configured mtime skew.
fn skew_source(env: &OpEnv, p: &Path) -> std::io::Result<()> {
    if env.src_skew_ns != 0 {
        let now = env.sim.lock().fs.now;
        let t = now + env.src_skew_ns;
        let ft = kismet_vfs::filetime::FileTime::from_unix_time(t.div_euclid(1_000_000_000), t.rem_euclid(1_000_000_000) as u32);
        kismet_vfs::filetime::set_file_times(p, ft, ft)?;
    }
    Ok(())
}

/// Executes one operation on one handle.  Never lets a panic escape except
/// the CrashSignal of a killed process (reported through `crashed`).
pub fn exec_op(env: &OpEnv, op_id: u32, hidx: usize, h: &Handle, kidx: usize, key: &KeySpec, op: &Op) -> OpRes {
    k::set_op(op_id);
    let (inv, fds_before) = {
        let st = env.sim.lock();
        (st.step, st.procs[env.proc].fds.len())
    };
    let judge_saw: Mutex<Option<(bool, Vec<u8>)>> = Mutex::new(None);
    let populate_called = Mutex::new(false);
    let populate_old: Mutex<Option<Vec<u8>>> = Mutex::new(None);
    let source_left = Mutex::new(false);
    let exists = |p: &Path| -> bool { env.sim.lock().fs.exists(&p.to_string_lossy()) };
    LAST_PANIC.with(|l| *l.borrow_mut() = None);

    let body = || -> std::io::Result<Out> {
        let name = key.name.as_str();
        // unusual input: the path handed to set/put names no file (the caller's
        // staging file is gone).  The call must fail, promptly.
        if let Op::Set { plen, .. } | Op::Put { plen, .. } = op {
            if *plen == MISSING_SOURCE {
                let src = PathBuf::from(format!("{}/missing-{}-{}", env.scratch, env.proc, op_id));
                let set = matches!(op, Op::Set { .. });
                return match h {
                    Handle::Plain(c) => lib(|| if set { c.set(name, &src) } else { c.put(name, &src) }),
                    Handle::Sharded(c) => lib(|| if set { c.set(key.key(), &src) } else { c.put(key.key(), &src) }),
                    Handle::Stack(c) => lib(|| if set { c.set(key.key(), &src) } else { c.put(key.key(), &src) }),
                    Handle::ReadOnly(_) => Ok(()),
                }
                .map(|_| Out::Unit);
            }
        }
        match (h, op) {
            // ---------------------------------------------------- lookups
            (Handle::Plain(c), Op::Get) | (Handle::Plain(c), Op::GetNoRead) => match lib(|| c.get(name))? {
                Some(f) => read_hit(&env.sim, env.proc, f, *op == Op::Get),
                None => Ok(Out::Miss),
            },
            (Handle::Sharded(c), Op::Get) | (Handle::Sharded(c), Op::GetNoRead) => match lib(|| c.get(key.key()))? {
                Some(f) => read_hit(&env.sim, env.proc, f, *op == Op::Get),
                None => Ok(Out::Miss),
            },
            (Handle::Stack(c), Op::Get) | (Handle::Stack(c), Op::GetNoRead) => match lib(|| c.get(key.key()))? {
                Some(f) => read_hit(&env.sim, env.proc, f, *op == Op::Get),
                None => Ok(Out::Miss),
            },
            (Handle::ReadOnly(c), Op::Get) | (Handle::ReadOnly(c), Op::GetNoRead) => match lib(|| c.get(key.key()))? {
                Some(f) => read_hit(&env.sim, env.proc, f, *op == Op::Get),
                None => Ok(Out::Miss),
            },
            (Handle::Plain(c), Op::Touch) => lib(|| c.touch(name)).map(Out::Bool),
            (Handle::Sharded(c), Op::Touch) => lib(|| c.touch(key.key())).map(Out::Bool),
            (Handle::Stack(c), Op::Touch) => lib(|| c.touch(key.key())).map(Out::Bool),
            (Handle::ReadOnly(c), Op::Touch) => lib(|| c.touch(key.key())).map(Out::Bool),
            // ---------------------------------------------------- raw writes
            (Handle::Plain(c), Op::Set { tag, plen }) if env.link_from.is_some() => {
                let src = app_source(env, op_id, name, *tag, *plen)?;
                lib(|| c.set(name, &src))?;
                *source_left.lock().unwrap() = exists(&src);
                Ok(Out::Unit)
            }
            (Handle::Sharded(c), Op::Set { tag, plen }) if env.link_from.is_some() => {
                let src = app_source(env, op_id, name, *tag, *plen)?;
                lib(|| c.set(key.key(), &src))?;
                *source_left.lock().unwrap() = exists(&src);
                Ok(Out::Unit)
            }
            (Handle::Plain(c), Op::Set { tag, plen }) | (Handle::Plain(c), Op::Put { tag, plen }) | (Handle::Plain(c), Op::SetTemp { tag, plen }) | (Handle::Plain(c), Op::PutTemp { tag, plen }) => {
                let dir = lib(|| c.temp_dir().map(|d| d.into_owned()))?;
                let mut tmp = NamedTempFile::new_in(dir)?;
                write_chunked(tmp.as_file_mut(), &make_value(name, *tag, *plen), env.chunk)?;
                skew_source(env, tmp.path())?;
                if matches!(op, Op::Set { .. } | Op::SetTemp { .. }) {
                    lib(|| c.set(name, tmp.path()))?;
                } else {
                    lib(|| c.put(name, tmp.path()))?;
                }
                *source_left.lock().unwrap() = exists(tmp.path());
                Ok(Out::Unit)
            }
            (Handle::Sharded(c), Op::Set { tag, plen }) | (Handle::Sharded(c), Op::Put { tag, plen }) | (Handle::Sharded(c), Op::SetTemp { tag, plen }) | (Handle::Sharded(c), Op::PutTemp { tag, plen }) => {
                let dir = lib(|| c.temp_dir(Some(key.key())).map(|d| d.into_owned()))?;
                let mut tmp = NamedTempFile::new_in(dir)?;
                write_chunked(tmp.as_file_mut(), &make_value(name, *tag, *plen), env.chunk)?;
                skew_source(env, tmp.path())?;
                if matches!(op, Op::Set { .. } | Op::SetTemp { .. }) {
                    lib(|| c.set(key.key(), tmp.path()))?;
                } else {
                    lib(|| c.put(key.key(), tmp.path()))?;
                }
                *source_left.lock().unwrap() = exists(tmp.path());
                Ok(Out::Unit)
            }
            // ---------------------------------------------------- stacked writes
            (Handle::Stack(c), Op::Set { tag, plen }) | (Handle::Stack(c), Op::Put { tag, plen }) => {
                let src = app_source(env, op_id, name, *tag, *plen)?;
                let r = lib(|| if matches!(op, Op::Set { .. }) { c.set(key.key(), &src) } else { c.put(key.key(), &src) });
                if r.is_err() {
                    // the application owns its source on failure
                    let _ = kismet_vfs::std::fs::remove_file(&src);
                } else {
                    *source_left.lock().unwrap() = exists(&src);
                }
                r.map(|_| Out::Unit)
            }
            (Handle::Stack(c), Op::SetTemp { tag, plen }) | (Handle::Stack(c), Op::PutTemp { tag, plen }) => {
                let mut tmp = NamedTempFile::new_in(&env.scratch)?;
                write_chunked(tmp.as_file_mut(), &make_value(name, *tag, *plen), env.chunk)?;
                if let Some(m) = env.temp_mode {
                    use std::os::unix::fs::PermissionsExt;
                    tmp.as_file().set_permissions(kismet_vfs::std::fs::Permissions::from_mode(m))?;
                }
                let tmp_path = tmp.path().to_path_buf();
                let _guard = SourceProbe { left: &source_left, path: tmp_path, sim: &env.sim };
                if matches!(op, Op::SetTemp { .. }) {
                    lib(|| c.set_temp_file(key.key(), tmp))?;
                } else {
                    lib(|| c.put_temp_file(key.key(), tmp))?;
                }
                Ok(Out::Unit)
            }
            (Handle::Stack(c), Op::Ensure { tag, plen, err }) => {
                let f = lib(|| c.ensure(key.key(), |dst| {
                    *populate_called.lock().unwrap() = true;
                    match err {
                        PopErr::None => write_chunked(dst, &make_value(name, *tag, *plen), env.chunk),
                        PopErr::NotFound => Err(std::io::Error::new(ErrorKind::NotFound, "populate: not found")),
                        PopErr::Other => Err(std::io::Error::new(ErrorKind::Other, "populate: failed")),
                    }
                }))?;
                read_hit(&env.sim, env.proc, f, true)
            }
            (Handle::Stack(c), Op::GetOrUpdate { action, judge_reads, tag, plen, err }) => {
                let f = lib(|| c.get_or_update(
                    key.key(),
                    |hit| {
                        let (primary, file) = match hit {
                            CacheHit::Primary(f) => (true, f),
                            CacheHit::Secondary(f) => (false, f),
                        };
                        let mut buf = vec![0u8; *judge_reads];
                        let mut got = 0;
                        while got < buf.len() {
                            match file.read(&mut buf[got..]) {
                                Ok(0) => break,
                                Ok(n) => got += n,
                                Err(_) => break,
                            }
                        }
                        buf.truncate(got);
                        *judge_saw.lock().unwrap() = Some((primary, buf));
                        match action {
                            Action::Accept => CacheHitAction::Accept,
                            Action::Promote => CacheHitAction::Promote,
                            Action::Replace => CacheHitAction::Replace,
                        }
                    },
                    |dst, old| {
                        *populate_called.lock().unwrap() = true;
                        if let Some(mut o) = old {
                            // the statement does not promise that `old` is
                            // rewound after the judge consumed it
                            use std::io::Seek;
                            let _ = o.seek(std::io::SeekFrom::Start(0));
                            let mut b = Vec::new();
                            let _ = o.read_to_end(&mut b);
                            *populate_old.lock().unwrap() = Some(b);
                        }
                        match err {
                            PopErr::None => write_chunked(dst, &make_value(name, *tag, *plen), env.chunk),
                            PopErr::NotFound => Err(std::io::Error::new(ErrorKind::NotFound, "populate: not found")),
                            PopErr::Other => Err(std::io::Error::new(ErrorKind::Other, "populate: failed")),
                        }
                    },
                ))?;
                read_hit(&env.sim, env.proc, f, true)
            }
            (Handle::Plain(c), Op::TempDir) => lib(|| c.temp_dir().map(|p| Out::Path(p.to_string_lossy().to_string()))),
            (Handle::Sharded(c), Op::TempDir) => lib(|| c.temp_dir(Some(key.key())).map(|p| Out::Path(p.to_string_lossy().to_string()))),
            // ---------------------------------------------------- unsupported combos
            (Handle::ReadOnly(_), _) | (Handle::Plain(_), _) | (Handle::Sharded(_), _) | (Handle::Stack(_), Op::TempDir) => Err(std::io::Error::new(ErrorKind::Unsupported, "harness: unsupported op for this handle")),
        }
    };

    let r = std::panic::catch_unwind(std::panic::AssertUnwindSafe(body));
    let (ret, fds_after) = {
        let st = env.sim.lock();
        (st.step, st.procs[env.proc].fds.len())
    };
    let mut res = OpRes {
        op_id,
        part: env.part,
        proc: env.proc,
        handle: hidx,
        key: kidx,
        op: op.clone(),
        inv,
        ret,
        out: Ok(Out::Unit),
        panic: None,
        crashed: false,
        judge_saw: judge_saw.lock().unwrap().take(),
        populate_called: *populate_called.lock().unwrap(),
        populate_old: populate_old.lock().unwrap().take(),
        fds_before,
        fds_after,
        source_left: *source_left.lock().unwrap(),
    };
    match r {
        Ok(Ok(o)) => res.out = Ok(o),
        Ok(Err(e)) => res.out = Err(to_errn(e)),
        Err(p) => {
            if p.is::<CrashSignal>() {
                res.crashed = true;
            } else {
                res.panic = Some(LAST_PANIC.with(|l| l.borrow_mut().take()).unwrap_or_else(|| "<panic>".to_string()));
            }
            res.out = Err(Errn {
                kind: ErrorKind::Other,
                os: None,
                msg: "panicked".to_string(),
            });
        }
    }
    res
}

// ----------------------------------------------------------------------
// Path classification
// ----------------------------------------------------------------------

#[derive(Clone, Debug, PartialEq)]
pub enum Loc {
    /// `<cache or shard dir>/<name>` with a key-like name
    Key { dir: usize, shard: Option<usize>, name: String },
    /// inside a `.kismet_temp` of a cache or shard directory
    Temp { dir: usize, shard: Option<usize>, name: String },
    /// a `.kismet_temp` directory itself
    TempDir { dir: usize },
    /// a cache root or a shard directory itself
    CacheDir { dir: usize },
    /// a dot-file (not .kismet*) directly inside a cache/shard dir
    DotFile { dir: usize, name: String },
    /// deeper inside a cache directory (nested)
    Nested { dir: usize },
    Outside,
}

pub fn is_shard_dir_name(n: &str) -> Option<usize> {
    let rest = n.strip_prefix(".kismet_")?;
    if rest == "temp" || rest.len() < 4 {
        return None;
    }
    if !rest.bytes().all(|b| b.is_ascii_digit() || (b'a'..=b'f').contains(&b)) {
        return None;
    }
    usize::from_str_radix(rest, 16).ok()
}

pub fn classify(dirs: &[DirSpec], canon: &str) -> Loc {
    // prefer the longest matching root
    let mut best: Option<(usize, &str)> = None;
    for (i, d) in dirs.iter().enumerate() {
        if canon == d.path {
            return Loc::CacheDir { dir: i };
        }
        if let Some(rest) = canon.strip_prefix(&format!("{}/", d.path)) {
            if best.map(|(_, r)| rest.len() < r.len()).unwrap_or(true) {
                best = Some((i, rest));
            }
        }
    }
    let (i, rest) = match best {
        Some(x) => x,
        None => return Loc::Outside,
    };
    let comps: Vec<&str> = rest.split('/').collect();
    let inner = |shard: Option<usize>, comps: &[&str]| -> Loc {
        match comps {
            [] => Loc::CacheDir { dir: i },
            [".kismet_temp"] => Loc::TempDir { dir: i },
            [".kismet_temp", n] => Loc::Temp { dir: i, shard, name: n.to_string() },
            [n] if n.starts_with('.') => Loc::DotFile { dir: i, name: n.to_string() },
            [n] => Loc::Key { dir: i, shard, name: n.to_string() },
            _ => Loc::Nested { dir: i },
        }
    };
    match dirs[i].kind {
        DirKind::Plain => inner(None, &comps),
        DirKind::Sharded(_) => {
            if let Some(s) = is_shard_dir_name(comps[0]) {
                inner(Some(s), &comps[1..])
            } else {
                // a sharded root holds only shard directories; anything else
                // is judged like a plain directory would be
                inner(None, &comps)
            }
        }
    }
}

// ----------------------------------------------------------------------
// Ride-along invariants
// ----------------------------------------------------------------------

#[derive(Clone, Debug)]
pub struct PubEvent {
    pub step: u64,
    pub op: u32,
    pub proc: usize,
    pub ino: Ino,
    pub dest: String,
    pub dirty: bool,
    pub mode: u32,
    pub kind: K,
    pub valid: bool,
}

#[derive(Default)]
pub struct InvState {
    pub published: BTreeMap<Ino, u32>,
    pub pubs: Vec<PubEvent>,
    /// (invariant name, message)
    pub violations: Vec<(&'static str, String)>,
    pub locks: u64,
    /// last successful fsync step per inode, last write step per inode
    pub last_write: BTreeMap<Ino, u64>,
    pub last_fsync_ok: BTreeMap<Ino, u64>,
    pub failed_fsync: BTreeSet<Ino>,
    pub episodes: Vec<Episode>,
    /// per process: index of the episode in progress and its phase
    open_ep: BTreeMap<i64, (usize, i32, bool)>,
}

/// One maintenance pass over a cache or shard directory, cut out of the
/// trace: the key-named entries at `opendir` time, and what the pass then
/// deleted and re-stamped.
#[derive(Clone, Debug)]
pub struct Episode {
    pub step: u64,
    pub op: u32,
    pub proc: usize,
    pub dir: String,
    pub dir_idx: usize,
    pub now: kismet_vfs::simfs::Ts,
    pub before: Vec<crate::sc_model::Entry>,
    /// every non-directory entry, dot-files included
    pub before_all: Vec<crate::sc_model::Entry>,
    pub unlinked: Vec<String>,
    pub restamped: Vec<(String, kismet_vfs::simfs::Ts, kismet_vfs::simfs::Ts)>,
    /// non-directory, non-dot entries the pass managed to stat while listing
    pub listed: usize,
    /// unlink calls issued from this listing (whatever their result)
    pub unlink_attempts: usize,
    /// some entry vanished under the pass (stat or unlink said ENOENT/ESTALE)
    pub raced: bool,
}

impl Episode {
    /// The key-named entries as the pass left them.
    pub fn after(&self) -> Vec<crate::sc_model::Entry> {
        self.after_of(&self.before)
    }
    pub fn after_of(&self, before: &[crate::sc_model::Entry]) -> Vec<crate::sc_model::Entry> {
        let mut out = Vec::new();
        for e in before {
            if self.unlinked.contains(&e.name) {
                continue;
            }
            let mut e = e.clone();
            for (n, a, m) in &self.restamped {
                if *n == e.name {
                    if *a != kismet_vfs::simfs::UTIME_OMIT {
                        e.atime = *a;
                    }
                    if *m != kismet_vfs::simfs::UTIME_OMIT {
                        e.mtime = *m;
                    }
                }
            }
            out.push(e);
        }
        out
    }
}

pub fn dir_entries(fs: &SimFs, dir: &str, keys_only: bool) -> Vec<crate::sc_model::Entry> {
    let mut out = Vec::new();
    for (name, ino) in fs.list(dir) {
        let i = fs.inode(ino);
        if i.is_dir() {
            continue;
        }
        if keys_only && name.starts_with('.') {
            continue;
        }
        out.push(crate::sc_model::Entry {
            name,
            mtime: i.mtime,
            atime: i.atime,
            ino,
        });
    }
    out
}

pub struct InvCfg {
    pub dirs: Vec<DirSpec>,
    /// indices of dirs that are read-only roots for the oracle
    pub readonly: Vec<usize>,
    /// paths (prefixes) where mutation is legitimate (caches, scratch, /tmp)
    pub writable_roots: Vec<String>,
    pub check_confined: bool,
}

fn is_mutating(r: &Rec) -> bool {
    match r.kind {
        K::Open => r.arg & (k::O_WRITE | k::O_APPEND | k::O_CREATE | k::O_TRUNC) != 0,
        K::OpenTmp | K::Write | K::Truncate | K::Chmod | K::Fchmod | K::Rename | K::Link | K::Unlink | K::Rmdir | K::Mkdir => true,
        K::Utimens | K::Futimens => true,
        _ => false,
    }
}

pub fn make_observer(cfg: InvCfg, state: Arc<Mutex<InvState>>) -> k::Observer {
    Box::new(move |fs: &SimFs, r: &Rec| {
        {
            let mut st = state.lock().unwrap();
            track_episode(&cfg.dirs, &mut st, fs, r);
        }
        if r.err != 0 {
            if matches!(r.kind, K::Fsync | K::Fdatasync) {
                state.lock().unwrap().failed_fsync.insert(r.ino);
            }
            if r.kind == K::Lock {
                state.lock().unwrap().locks += 1;
            }
            // the library closed a descriptor number it does not hold (any more):
            // in a process with other threads that number may already be
            // somebody else's file
            if r.kind == K::Close && r.lib && r.err == libc::EBADF && !r.injected {
                state.lock().unwrap().violations.push(("double-close", format!("the library closed descriptor {} which is not open (closed twice?): {}", r.fd, r.short())));
            }
            return;
        }
        let mut st = state.lock().unwrap();
        match r.kind {
            K::Lock => {
                st.locks += 1;
                st.violations.push(("nolock", format!("lock primitive used: {}", r.short())));
            }
            K::Write | K::Truncate => {
                st.last_write.insert(r.ino, r.step);
                if st.published.contains_key(&r.ino) {
                    st.violations.push(("immutable", format!("published inode {} modified in place: {}", r.ino, r.short())));
                }
            }
            K::Fsync | K::Fdatasync => {
                st.last_fsync_ok.insert(r.ino, r.step);
            }
            K::Chmod | K::Fchmod => {
                if let Some(old) = st.published.get(&r.ino).copied() {
                    if old != (r.arg as u32 & 0o7777) {
                        st.violations.push(("immutable", format!("published inode {} re-moded {:o} -> {:o}: {}", r.ino, old, r.arg, r.short())));
                        st.published.insert(r.ino, r.arg as u32 & 0o7777);
                    }
                }
            }
            K::Rename | K::Link => {
                if let Loc::Key { name, .. } = classify(&cfg.dirs, &r.path2) {
                    if let Some(i) = fs.inodes.get(&r.ino) {
                        if i.is_file() {
                            let valid = parse_value(i.data()).map(|(k, _)| k == name).unwrap_or(false);
                            if !valid {
                                st.violations.push(("content", format!("{} published under {} with content {}", r.ino, r.path2, describe_bytes(i.data()))));
                            }
                            if i.mode & 0o222 != 0 {
                                st.violations.push(("mode", format!("{} published under {} with mode {:o}", r.ino, r.path2, i.mode)));
                            }
                            let ev = PubEvent {
                                step: r.step,
                                op: r.op,
                                proc: r.proc,
                                ino: r.ino,
                                dest: r.path2.clone(),
                                dirty: i.dirty,
                                mode: i.mode,
                                kind: r.kind,
                                valid,
                            };
                            st.pubs.push(ev);
                            st.published.insert(r.ino, i.mode);
                        } else {
                            st.violations.push(("content", format!("directory published under key name {}", r.path2)));
                        }
                    }
                }
            }
            K::Open => {
                if r.arg & k::O_CREATE != 0 {
                    if let Loc::Key { name, .. } = classify(&cfg.dirs, &r.path) {
                        if let Some(i) = fs.inodes.get(&r.ino) {
                            let valid = parse_value(i.data()).map(|(k, _)| k == name).unwrap_or(false);
                            if !valid {
                                st.violations.push(("content", format!("file created in place under key name {} ({})", r.path, describe_bytes(i.data()))));
                            }
                        }
                    }
                }
            }
            _ => {}
        }
        if is_mutating(r) {
            // read-only roots
            for p in [&r.path, &r.path2] {
                if p.is_empty() {
                    continue;
                }
                for &ro in &cfg.readonly {
                    let root = &cfg.dirs[ro].path;
                    if p == root || p.starts_with(&format!("{}/", root)) {
                        // a utimens that leaves the stored mtime as it was and
                        // does not move atime backwards changes nothing the
                        // statement cares about
                        // ("future" is judged by the clock value the caller worked
                        // with -- the atime it passes -- not by the time the call
                        // lands: a stamp can cross "now" in between)
                        let lib_now = if r.atime != kismet_vfs::simfs::UTIME_OMIT && r.atime > 0 { r.atime.min(r.now) } else { r.now };
                        let harmless = matches!(r.kind, K::Utimens | K::Futimens) && fs.inodes.get(&r.ino).map(|i| i.mtime == r.prev_mtime && (i.atime >= r.prev_atime || r.prev_atime > lib_now || r.prev_mtime > lib_now)).unwrap_or(false);
                        if !harmless {
                            st.violations.push(("readonly", format!("mutating call under read-only root {}: {} [before: atime {} mtime {}; after: {:?}; now {}]", root, r.short(), r.prev_atime, r.prev_mtime, fs.inodes.get(&r.ino).map(|i| (i.atime, i.mtime)), r.now)));
                        }
                    }
                }
            }
            if cfg.check_confined {
                for p in [&r.path, &r.path2] {
                    if p.is_empty() {
                        continue;
                    }
                    let ok = cfg.writable_roots.iter().any(|w| p == w || p.starts_with(&format!("{}/", w)));
                    if !ok {
                        st.violations.push(("confined", format!("mutating call outside the declared roots: {}", r.short())));
                        continue;
                    }
                    match classify(&cfg.dirs, p) {
                        Loc::Nested { .. } => st.violations.push(("confined", format!("mutating call in a nested subdirectory: {}", r.short()))),
                        Loc::DotFile { name, .. } if !name.starts_with(".kismet") => st.violations.push(("confined", format!("mutating call in the dot-prefixed namespace: {}", r.short()))),
                        _ => {}
                    }
                }
            }
        }
        // futimens through a descriptor on a read-only root
        if matches!(r.kind, K::Futimens | K::Fchmod) {
            // handled above through r.path (descriptor path)
        }
    })
}

fn track_episode(dirs: &[DirSpec], st: &mut InvState, fs: &SimFs, r: &Rec) {
    // an episode in progress for this process?
    // one episode at a time per participant (threads sharing a process
    // maintain independently)
    let who: i64 = (r.part as i64 + 1) * 10_000 + r.proc as i64;
    if let Some((idx, fd, listing)) = st.open_ep.get(&who).copied() {
        // per-entry stats belong to the pass whether they are issued while the
        // directory stream is open or after it was closed
        let stat_in_dir = matches!(r.kind, K::FstatAt | K::Stat | K::Lstat) && {
            let d = st.episodes[idx].dir.clone();
            let p = if r.path.is_empty() { r.raw.clone() } else { r.path.clone() };
            k::split_parent(&p).map(|(pd, _)| pd == d).unwrap_or(false)
        };
        if listing || stat_in_dir {
            if stat_in_dir || r.kind == K::FstatAt {
                let name = r.raw.rsplit('/').next().unwrap_or("");
                if r.err == 0 {
                    let is_dir = fs.inodes.get(&r.ino).map(|i| i.is_dir()).unwrap_or(false);
                    if !is_dir && !name.starts_with('.') {
                        st.episodes[idx].listed += 1;
                    }
                } else if r.err == libc::ENOENT || r.err == libc::ESTALE {
                    st.episodes[idx].raced = true;
                }
            }
            if stat_in_dir {
                return;
            }
            match r.kind {
                K::Readdir | K::FstatAt => return,
                K::Closedir if r.fd == fd => {
                    st.open_ep.insert(who, (idx, fd, false));
                    return;
                }
                _ => {}
            }
            // anything else while listing: keep listing (e.g. errors)
            if r.kind != K::Opendir {
                return;
            }
        } else {
            let dir = st.episodes[idx].dir.clone();
            let in_dir = |p: &str| split_parent_str(p).map(|(d, n)| (d == dir, n)).unwrap_or((false, String::new()));
            match r.kind {
                K::Unlink => {
                    // (the canonical path of a vanished file does not
                    // resolve: fall back to the path as given)
                    let p = if r.path.is_empty() { r.raw.clone() } else { r.path.clone() };
                    let (same, name) = in_dir(&p);
                    if same {
                        st.episodes[idx].unlink_attempts += 1;
                        if r.err == 0 {
                            st.episodes[idx].unlinked.push(name);
                        } else if r.err == libc::ENOENT || r.err == libc::ESTALE {
                            st.episodes[idx].raced = true;
                        }
                        return;
                    }
                }
                K::Utimens => {
                    let (same, name) = in_dir(&r.path);
                    if same {
                        if r.err == 0 {
                            // stored (truncated) values
                            if let Some(i) = fs.inodes.get(&r.ino) {
                                st.episodes[idx].restamped.push((name, i.atime, i.mtime));
                            }
                        }
                        return;
                    }
                }
                _ => {}
            }
            // a pass only ever addresses the entries of the directory it
            // listed (and, separately, the contents of its .kismet_temp)
            if matches!(r.kind, K::Utimens | K::Unlink) && r.lib {
                let prefix = format!("{}/", dir);
                if let Some(rest) = r.raw.strip_prefix(&prefix) {
                    if rest.contains('/') && !rest.starts_with(".kismet_temp/") {
                        st.violations.push(("maintenance-path", format!("maintenance of {} addressed {}, which is not an entry of that directory: {}", dir, r.raw, r.short())));
                    }
                }
            }
            st.open_ep.remove(&who);
        }
    }
    if r.kind == K::Opendir && r.err == 0 {
        if let Loc::CacheDir { dir } = classify(dirs, &r.path) {
            // a sharded root itself is never listed by the library; shard
            // directories and plain roots are
            let ep = Episode {
                step: r.step,
                op: r.op,
                proc: r.proc,
                dir: r.path.clone(),
                dir_idx: dir,
                now: r.now,
                before: dir_entries(fs, &r.path, true),
                before_all: dir_entries(fs, &r.path, false),
                unlinked: Vec::new(),
                restamped: Vec::new(),
                listed: 0,
                unlink_attempts: 0,
                raced: false,
            };
            st.episodes.push(ep);
            let idx = st.episodes.len() - 1;
            st.open_ep.insert(who, (idx, r.ret as i32, true));
        }
    }
}

fn split_parent_str(p: &str) -> Option<(String, String)> {
    k::split_parent(p)
}

/// Scans a directory tree for key-named files and validates them
/// (I-content and I-mode on a snapshot).
pub fn validate_tree(fs: &SimFs, dirs: &[DirSpec]) -> Vec<(&'static str, String)> {
    let mut out = Vec::new();
    for d in dirs {
        for (path, stat, data) in fs.tree(&d.path) {
            if stat.is_dir {
                continue;
            }
            if let Loc::Key { name, .. } = classify(dirs, &path) {
                let data = data.unwrap();
                match parse_value(&data) {
                    Some((k, _)) if k == name => {}
                    _ => out.push(("content", format!("{} holds {}", path, describe_bytes(&data)))),
                }
                if stat.mode & 0o222 != 0 {
                    out.push(("mode", format!("{} has mode {:o}", path, stat.mode)));
                }
            }
        }
    }
    out
}

/// errnos a real kernel can plausibly return for each call kind
pub fn errnos_for(kind: K, creating: bool) -> Vec<i32> {
    use libc::*;
    match kind {
        K::Open | K::OpenTmp | K::Opendir => {
            let mut v = vec![EIO, EACCES, EMFILE, ENFILE, ENOMEM, ESTALE, EINTR];
            if creating {
                v.extend([ENOSPC, EDQUOT]);
            }
            v
        }
        K::Read | K::Readdir => vec![EIO, ESTALE, EINTR],
        K::Write => vec![EIO, ENOSPC, EDQUOT, EINTR],
        K::Fsync | K::Fdatasync => vec![EIO, ENOSPC, EDQUOT],
        K::Close | K::Closedir => vec![EIO, ENOSPC, EINTR],
        K::Stat | K::Lstat | K::Fstat | K::FstatAt => vec![EIO, EACCES, ESTALE, ENOMEM],
        K::Chmod | K::Fchmod | K::Utimens | K::Futimens => vec![EIO, EPERM, EACCES, EROFS, ESTALE],
        K::Rename => vec![EIO, EACCES, ENOSPC, EDQUOT, EXDEV, ESTALE, EROFS],
        K::Link => vec![EIO, EACCES, ENOSPC, EDQUOT, EXDEV, EMLINK, ESTALE, EROFS],
        K::Unlink | K::Rmdir => vec![EIO, EACCES, EPERM, EROFS, ESTALE],
        K::Mkdir => vec![EIO, EACCES, ENOSPC, EDQUOT, EMLINK, EROFS],
        K::Truncate => vec![EIO, ENOSPC],
        K::Seek | K::Lock => vec![],
    }
}

pub fn canon_of(p: &Path) -> String {
    p.to_string_lossy().to_string()
}
