//! The configuration matrix of stacked caches (C13, C14, C15, C19): one
//! point = (write side, read-only levels, content of each level, operation,
//! populate outcome, checker), run sequentially on a fresh SimFs and judged
//! against a small reference model of the stack.

use crate::common::*;
use crate::json::J;
use crate::runner::*;
use crate::world::*;
use kismet_vfs::kernel::{DrawPolicy, Tape, K};
use kismet_vfs::simfs::Stat;
use std::collections::{BTreeMap, BTreeSet};
use std::io::ErrorKind;

#[derive(Clone, Copy, Debug, PartialEq, Eq)]
pub enum LKind {
    Plain,
    Sharded,
}

#[derive(Clone, Debug)]
pub struct Config {
    pub writer: Option<LKind>,
    pub readers: Vec<LKind>,
    /// content per level (writer first if any): 0 nothing, 1 A, 2 B
    pub content: Vec<u8>,
}

pub fn all_configs() -> Vec<Config> {
    configs_upto(2)
}

/// `max_ro_only`: number of read-only levels allowed when there is no
/// write side (with a write side it is always 0..=2).
pub fn configs_upto(max_ro_only: usize) -> Vec<Config> {
    let mut out = Vec::new();
    for writer in [None, Some(LKind::Plain), Some(LKind::Sharded)] {
        let maxr = if writer.is_none() { max_ro_only } else { 2 };
        for r in 0..=maxr {
            for rk in 0..(1 << r) {
                let readers: Vec<LKind> = (0..r).map(|i| if rk >> i & 1 == 1 { LKind::Sharded } else { LKind::Plain }).collect();
                let levels = r + writer.is_some() as usize;
                let mut n = 1;
                for _ in 0..levels {
                    n *= 3;
                }
                for c in 0..n {
                    let mut content = Vec::new();
                    let mut x = c;
                    for _ in 0..levels {
                        content.push((x % 3) as u8);
                        x /= 3;
                    }
                    out.push(Config { writer, readers: readers.clone(), content });
                }
            }
        }
    }
    out
}

#[derive(Clone, Copy, Debug, PartialEq, Eq)]
pub enum MOp {
    Get,
    Touch,
    Ensure,
    Gou(Action),
    Set,
    Put,
    SetTemp,
    PutTemp,
}

pub const OPS13: [MOp; 10] = [MOp::Get, MOp::Touch, MOp::Ensure, MOp::Gou(Action::Accept), MOp::Gou(Action::Promote), MOp::Gou(Action::Replace), MOp::Set, MOp::Put, MOp::SetTemp, MOp::PutTemp];
pub const OPS14: [MOp; 5] = [MOp::Get, MOp::Ensure, MOp::Gou(Action::Accept), MOp::Gou(Action::Promote), MOp::Gou(Action::Replace)];

/// populate outcome: Val(tag) or an error
#[derive(Clone, Copy, Debug, PartialEq, Eq)]
pub enum Pop {
    Val(u32),
    NotFound,
    Other,
}

#[derive(Clone, Debug)]
pub struct Point {
    pub cfg: Config,
    pub op: MOp,
    pub pop: Pop,
    pub checker: CheckerKind,
    /// C15 extras
    pub bad_name: Option<String>,
    pub missing_dirs: bool,
    /// creating the scratch file for the populate comparison fails (ENOENT:
    /// its directory vanished), as does the fallback creation
    pub fault_scratch: bool,
}

pub struct Swarm {
    pub umask: u32,
    pub auto_sync: bool,
    pub judge_reads: usize,
    pub plen: [usize; 4],
    pub noise: bool,
    /// the reader does not own the files: futimens fails with EPERM
    pub futimens_eperm: bool,
    /// mode the application gives its temp-file object before
    /// set_temp_file / put_temp_file
    pub temp_mode: Option<u32>,
    /// entries of read-only levels were dropped there by another program
    /// with this mode (Kismet itself publishes 0444)
    pub foreign_mode: u32,
    /// the open of the key's copy in this level (index into the levels that
    /// hold a copy) fails with EIO
    pub fault_open: Option<usize>,
    /// every consultation of the maintenance trigger says "now" (capacities are
    /// out of reach, so nothing is evicted; the read side must stay untouched)
    pub fire: bool,
    /// crash debris older than the age limit in the temporary directories of
    /// the read-only levels
    pub ro_debris: bool,
    /// the first copy of the key is a truncated copy of its value (0 bytes, or
    /// exactly 64 KiB of a longer value); applied only where a strict checker
    /// must then reject the pair
    pub trunc_first: Option<usize>,
}

#[derive(Clone, Debug, PartialEq)]
enum Exp {
    Unit,
    Bool(bool),
    Miss,
    Hit(u32),
    Err(Option<ErrorKind>),
    Panic,
}

pub struct MatFinding {
    pub prop: &'static str,
    pub v: Violation,
}

pub struct MatReport {
    pub findings: Vec<MatFinding>,
    pub sig: u64,
    pub steps: u64,
    pub sim_ns: i64,
    pub desc: String,
    pub result: String,
    pub trace: Vec<String>,
    pub checker_calls: usize,
    pub counters: BTreeMap<String, u64>,
}

fn snapshot(w: &World, path: &str) -> Vec<(String, Stat, Option<std::sync::Arc<Vec<u8>>>)> {
    w.with_fs(|fs| fs.tree(path))
}

pub fn run_point(tape: &mut Tape, pt: &Point, detail: bool) -> MatReport {
    let kn = draw_knobs(tape);
    let sw = Swarm {
        umask: *tape.pick(&[0o022u32, 0o000, 0o077]),
        auto_sync: tape.draw(3) != 2,
        judge_reads: *tape.pick(&[0usize, 3, 1_000_000]),
        plen: [0, *tape.pick(&[5usize, 0, 40, 4097, 8192 * 2 + 5]), *tape.pick(&[6usize, 1, 41, 4095]), *tape.pick(&[7usize, 0, 8192])],
        noise: tape.draw(4) == 3,
        futimens_eperm: tape.draw(4) == 3,
        temp_mode: *tape.pick(&[None, None, Some(0o400u32), Some(0o440), Some(0o644), Some(0o640), Some(0o444)]),
        foreign_mode: *tape.pick(&[0o444u32, 0o444, 0o444, 0o644, 0o664, 0o400]),
        fault_open: if tape.draw(6) == 5 { Some(tape.draw(3) as usize) } else { None },
        fire: tape.draw(4) == 3,
        ro_debris: tape.draw(3) == 2,
        trunc_first: if tape.draw(6) == 5 { Some(*tape.pick(&[0usize, 65536])) } else { None },
    };
    let nshards = 2 + tape.draw(3) as usize;
    let a = tape.draw(nshards as u64) as usize;
    let mut b = tape.draw(nshards as u64) as usize;
    if a == b {
        b = (a + 1) % nshards;
    }
    let (h, s) = solve_key(tape, nshards, (a, b));
    let good_name = "thekey".to_string();
    let key = KeySpec { name: pt.bad_name.clone().unwrap_or_else(|| good_name.clone()), hash: h, sec: s };
    let cname = good_name.clone();
    let mut fs = new_fs(&kn);
    // a third of the runs are "root": permission bits are not enforced
    fs.cfg.enforce_perms = tape.draw(3) != 2;
    // a truncated first copy: only with a strict checker, two or more copies
    // and a lookup that compares them (the expected outcome is then simply
    // "rejected", whatever the other copies hold)
    let npresent = pt.cfg.content.iter().filter(|c| **c != 0).count();
    let strict_kind = matches!(pt.checker, CheckerKind::Recording | CheckerKind::Panicking | CheckerKind::ByteEq);
    let trunc = match sw.trunc_first {
        Some(l) if strict_kind && npresent >= 2 && pt.bad_name.is_none() && matches!(pt.op, MOp::Get | MOp::Ensure | MOp::Gou(_)) && !pt.fault_scratch && sw.fault_open.is_none() => Some(l),
        _ => None,
    };
    let mut sw = sw;
    if trunc == Some(65536) {
        // the value the truncated copy was cut from is longer than 64 KiB
        let first_tag = *pt.cfg.content.iter().find(|c| **c != 0).unwrap() as usize;
        sw.plen[first_tag] = 70_000;
    }
    // the built-in byte-equality checker where the point names my recording one
    let eff_checker = match (trunc, pt.checker) {
        (Some(_), CheckerKind::Recording) => CheckerKind::ByteEq,
        (_, c) => c,
    };
    let mut first_planted = false;
    // ------------------------------------------------------------ levels
    let nl = pt.cfg.content.len();
    let mut dirs = Vec::new();
    let mut kinds: Vec<LKind> = Vec::new();
    if let Some(k) = pt.cfg.writer {
        kinds.push(k);
    }
    kinds.extend(pt.cfg.readers.iter().copied());
    let has_writer = pt.cfg.writer.is_some();
    let mut phys_of: Vec<Option<String>> = vec![None; nl];
    for (i, k) in kinds.iter().enumerate() {
        let path = format!("/sim/c{}", i);
        let c = pt.cfg.content[i];
        let is_reader = !(has_writer && i == 0);
        if !(pt.missing_dirs && is_reader && c == 0) {
            fs.mkdir_all(&path);
        }
        let kind = match k {
            LKind::Plain => DirKind::Plain,
            LKind::Sharded => DirKind::Sharded(nshards),
        };
        if c != 0 {
            let phys = match k {
                LKind::Plain => path.clone(),
                LKind::Sharded => format!("{}/{}", path, shard_dir_name(if tape.draw(2) == 0 { a } else { b })),
            };
            fs.mkdir_all(&phys);
            // read-only levels may hold entries stamped by a host whose clock
            // runs ahead (mtime in the reader's future)
            let future = is_reader && tape.draw(4) == 3;
            let mtime = if future { fs.now + *tape.pick(&[600_000_000_000i64, 3_600_000_000_000]) } else { fs.now - 7_200_000_000_000 - (i as i64) * 1_000_000_000 };
            let marked = tape.draw(2) == 1;
            let mut bytes = make_value(&cname, c as u32, sw.plen[c as usize]);
            if let (Some(l), false) = (trunc, first_planted) {
                bytes.truncate(l);
            }
            first_planted = true;
            fs.plant_file(&format!("{}/{}", phys, cname), &bytes, if is_reader { sw.foreign_mode } else { 0o444 }, if marked { mtime } else { mtime - 120_000_000_000 }, mtime);
            // a sibling entry that must never change
            fs.plant_file(&format!("{}/sibling", phys), &make_value("sibling", 9, 3), 0o444, mtime - 120_000_000_000, mtime - 5_000_000_000);
            phys_of[i] = Some(phys);
        }
        // an empty read-only level may hold a dead name for the key: a link
        // whose target is gone.  It is absent for every lookup, and it is as
        // untouchable as anything else in a read-only directory.
        if c == 0 && is_reader && !pt.missing_dirs && tape.draw(4) == 3 {
            let phys = match k {
                LKind::Plain => path.clone(),
                LKind::Sharded => format!("{}/{}", path, shard_dir_name(if tape.draw(2) == 0 { a } else { b })),
            };
            fs.mkdir_all(&phys);
            let m = fs.now - 9_000_000_000_000;
            fs.plant_symlink(&format!("{}/{}", phys, cname), "gone/away", m);
        }
        if sw.ro_debris && is_reader && !(pt.missing_dirs && c == 0) {
            let old = fs.now - 10_800_000_000_000;
            let homes: Vec<String> = match k {
                LKind::Plain => vec![path.clone()],
                LKind::Sharded => (0..nshards).map(|s| format!("{}/{}", path, shard_dir_name(s))).filter(|d| fs.exists(d)).collect(),
            };
            for h in homes {
                fs.mkdir_all(&format!("{}/.kismet_temp", h));
                fs.plant_file(&format!("{}/.kismet_temp/.tmpCRASHED", h), b"half a value", 0o600, old, old);
            }
        }
        dirs.push(DirSpec { path, kind, capacity: 1_000_000 });
    }
    let reader_idx: Vec<usize> = (0..nl).filter(|i| !(has_writer && *i == 0)).collect();
    let spec = HandleSpec::Stack { writer: if has_writer { Some(0) } else { None }, readers: reader_idx.clone(), auto_sync: sw.auto_sync, checker: eff_checker };
    let mut w = World::new(fs, &kn, tape, 2, 1, dirs.clone(), WorldCfg { readonly: reader_idx.clone(), check_confined: true, extra_writable: vec![] });
    w.script_trigger(0, vec![], DrawPolicy::Const(if sw.fire { FIRE_NOW } else { u64::MAX }));
    w.script_trigger(1, vec![], DrawPolicy::Const(u64::MAX));
    w.sim.lock().procs[0].umask = sw.umask;
    let handle = w.build(&spec);
    let before: Vec<_> = dirs.iter().map(|d| snapshot(&w, &d.path)).collect();

    // optional reader noise by another process (cannot change results: C15)
    if sw.noise && pt.bad_name.is_none() {
        let ro = w.build(&HandleSpec::ReadOnly { readers: (0..nl).collect(), checker: CheckerKind::None });
        let _ = w.op(1, 1, &ro, 0, &key, &Op::Touch);
    }
    let before_op: Vec<_> = dirs.iter().map(|d| snapshot(&w, &d.path)).collect();
    let start_now = w.with_fs(|fs| fs.now);

    // ------------------------------------------------------------ run
    let (ptag, perr) = match pt.pop {
        Pop::Val(t) => (t, PopErr::None),
        Pop::NotFound => (3, PopErr::NotFound),
        Pop::Other => (3, PopErr::Other),
    };
    let pplen = sw.plen[ptag as usize];
    let op = match pt.op {
        MOp::Get => Op::Get,
        MOp::Touch => Op::Touch,
        MOp::Ensure => Op::Ensure { tag: ptag, plen: pplen, err: perr },
        MOp::Gou(a) => Op::GetOrUpdate { action: a, judge_reads: sw.judge_reads, tag: ptag, plen: pplen, err: perr },
        MOp::Set => Op::Set { tag: ptag, plen: pplen },
        MOp::Put => Op::Put { tag: ptag, plen: pplen },
        MOp::SetTemp => Op::SetTemp { tag: ptag, plen: pplen },
        MOp::PutTemp => Op::PutTemp { tag: ptag, plen: pplen },
    };
    // the copy whose open fails (if any): one of the levels that hold the key
    let open_fault_path: Option<String> = match (sw.fault_open, pt.bad_name.is_none()) {
        (Some(k), true) => {
            let holders: Vec<&String> = phys_of.iter().flatten().collect();
            if holders.is_empty() {
                None
            } else {
                Some(format!("{}/{}", holders[k % holders.len()], cname))
            }
        }
        _ => None,
    };
    let open_fault_fired = std::sync::Arc::new(std::sync::atomic::AtomicBool::new(false));
    w.temp_mode = sw.temp_mode;
    if sw.futimens_eperm || pt.fault_scratch || open_fault_path.is_some() {
        let (fe, fs_) = (sw.futimens_eperm, pt.fault_scratch);
        let mut scratch_failed = false;
        let (ofp, off) = (open_fault_path.clone(), open_fault_fired.clone());
        w.sim.lock().injector = Some(Box::new(move |info, _t| {
            if !info.lib {
                return None;
            }
            if let Some(pth) = &ofp {
                if info.kind == K::Open && info.arg & kismet_vfs::kernel::O_CREATE == 0 && info.raw == pth.as_str() {
                    off.store(true, std::sync::atomic::Ordering::Relaxed);
                    return Some(libc::EIO);
                }
            }
            if fe && info.kind == K::Futimens {
                return Some(libc::EPERM);
            }
            if fs_ && info.kind == K::OpenTmp {
                scratch_failed = true;
                return Some(libc::ENOENT);
            }
            // the create+unlink fallback of tempfile() in the same directory
            if fs_ && scratch_failed && info.kind == K::Open && info.arg & kismet_vfs::kernel::O_CREATE != 0 && info.arg & kismet_vfs::kernel::O_EXCL != 0 && info.raw.contains("/.tmp") && !info.raw.contains("/sim/app") {
                return Some(libc::ENOENT);
            }
            None
        }));
    }
    let mark = w.trace_len();
    let res = w.op(0, 0, &handle, 0, &key, &op);
    w.sim.lock().injector = None;
    w.leave();
    let trace = w.trace_from(mark);
    let after: Vec<_> = dirs.iter().map(|d| snapshot(&w, &d.path)).collect();
    let log = w.log.lock().unwrap().clone();

    // ------------------------------------------------------------ predict
    let content: Vec<Option<u32>> = pt.cfg.content.iter().map(|c| if *c == 0 { None } else { Some(*c as u32) }).collect();
    let present: Vec<usize> = (0..nl).filter(|i| content[*i].is_some()).collect();
    let first = present.first().copied();
    let has_checker = pt.checker != CheckerKind::None;
    // a lenient checker is shown everything a strict one is, and accepts it:
    // results are then those of a stack without checker (first copy wins)
    let strict = has_checker && pt.checker != CheckerKind::Lenient;
    let all_equal = (!strict || present.windows(2).all(|p| content[p[0]] == content[p[1]])) && trunc.is_none();
    let mismatch = |_: ()| -> Exp {
        if pt.checker == CheckerKind::Panicking {
            Exp::Panic
        } else {
            Exp::Err(Some(ErrorKind::Other))
        }
    };
    let is_write_op = matches!(pt.op, MOp::Set | MOp::Put | MOp::SetTemp | MOp::PutTemp);
    let mut exp_writer: Option<u32> = if has_writer { content[0] } else { None };
    let mut exp_judge: Option<bool> = None;
    let mut exp_pop_called = false;
    let mut exp_pop_old: Option<u32> = None;
    let exp: Exp;
    if pt.bad_name.is_some() {
        // InvalidInput and an unchanged world -- unless there is nothing to
        // consult at all
        exp = match pt.op {
            MOp::Get if nl == 0 => Exp::Miss,
            MOp::Touch if nl == 0 => Exp::Bool(false),
            MOp::Set | MOp::Put | MOp::SetTemp | MOp::PutTemp if !has_writer => Exp::Err(None),
            MOp::Ensure | MOp::Gou(_) if nl == 0 => Exp::Err(None),
            _ => Exp::Err(Some(ErrorKind::InvalidInput)),
        };
        exp_pop_called = false;
    } else {
        match pt.op {
            MOp::Get => {
                // which copies get compared: with a checker, a write-side hit is
                // compared with the read side's answer, and the read side
                // compares all of its copies; without one, first hit wins.
                exp = match first {
                    None => Exp::Miss,
                    Some(f) => {
                        if has_checker && !all_equal {
                            mismatch(())
                        } else {
                            Exp::Hit(content[f].unwrap())
                        }
                    }
                };
            }
            MOp::Touch => {
                exp = Exp::Bool(first.is_some());
            }
            MOp::Set | MOp::SetTemp => {
                if has_writer {
                    exp_writer = Some(ptag);
                    exp = Exp::Unit;
                } else {
                    exp = Exp::Err(Some(ErrorKind::Unsupported));
                }
            }
            MOp::Put | MOp::PutTemp => {
                if has_writer {
                    if exp_writer.is_none() {
                        exp_writer = Some(ptag);
                    }
                    exp = Exp::Unit;
                } else {
                    exp = Exp::Err(Some(ErrorKind::Unsupported));
                }
            }
            MOp::Ensure | MOp::Gou(_) => {
                let action = match pt.op {
                    MOp::Gou(a) => a,
                    _ => Action::Promote,
                };
                let pop_result = |old: Option<u32>, exp_pop_called: &mut bool, exp_pop_old: &mut Option<u32>| -> Result<u32, Exp> {
                    *exp_pop_called = true;
                    *exp_pop_old = old;
                    match pt.pop {
                        Pop::Val(t) => Ok(t),
                        Pop::NotFound => Err(Exp::Err(Some(ErrorKind::NotFound))),
                        Pop::Other => Err(Exp::Err(Some(ErrorKind::Other))),
                    }
                };
                match first {
                    Some(f) if has_checker && !all_equal => {
                        // copies are compared before the judge is consulted
                        let _ = f;
                        exp = mismatch(());
                    }
                    Some(f) => {
                        let primary = has_writer && f == 0;
                        exp_judge = Some(primary);
                        let t = content[f].unwrap();
                        match action {
                            Action::Accept | Action::Promote => {
                                let mut e = Exp::Hit(t);
                                if has_checker {
                                    exp_pop_called = true;
                                    match pt.pop {
                                        Pop::NotFound => {}
                                        Pop::Other => e = Exp::Err(Some(ErrorKind::Other)),
                                        Pop::Val(v) => {
                                            if v != t && strict {
                                                e = mismatch(());
                                            }
                                        }
                                    }
                                }
                                // NotFound short-circuits: the hit is returned
                                // as is, without promotion
                                let promoted = action == Action::Promote && !primary && has_writer && e == Exp::Hit(t) && !(has_checker && pt.pop == Pop::NotFound);
                                if promoted {
                                    exp_writer = Some(t);
                                }
                                exp = e;
                            }
                            Action::Replace => match pop_result(Some(t), &mut exp_pop_called, &mut exp_pop_old) {
                                Ok(v) => {
                                    if has_writer {
                                        exp_writer = Some(v);
                                    }
                                    exp = Exp::Hit(v);
                                }
                                Err(e) => exp = e,
                            },
                        }
                    }
                    None => match pop_result(None, &mut exp_pop_called, &mut exp_pop_old) {
                        Ok(v) => {
                            if has_writer {
                                exp_writer = Some(v);
                            }
                            exp = Exp::Hit(v);
                        }
                        Err(e) => exp = e,
                    },
                }
            }
        }
    }

    // The scratch file is needed (a) for the populate comparison on an accepted
    // or promoted hit when a checker is configured, and (b) on every miss or
    // replacement when there is no write side.  If it cannot be created the
    // call must fail: the failure is Kismet's, not the populate function's.
    let mut exp = exp;
    if pt.fault_scratch && pt.bad_name.is_none() {
        if let MOp::Ensure | MOp::Gou(_) = pt.op {
            let action = match pt.op {
                MOp::Gou(a) => a,
                _ => Action::Promote,
            };
            let copies_ok = !(has_checker && !all_equal);
            let needed = match first {
                Some(_) if action != Action::Replace => has_checker && copies_ok,
                _ => !has_writer && copies_ok,
            };
            if needed {
                exp = Exp::Err(None);
                exp_pop_called = false;
                exp_writer = if has_writer { content[0] } else { None };
            }
        }
    }
    // A copy that is there but cannot be opened (EIO) is not an absent copy:
    // whichever lookup ran into it must fail, and with it the call.
    let open_fault_hit = open_fault_fired.load(std::sync::atomic::Ordering::Relaxed);
    if open_fault_hit {
        exp = Exp::Err(None);
    }
    // ------------------------------------------------------------ judge
    let mut findings: Vec<MatFinding> = Vec::new();
    let desc = format!(
        "writer={:?} readers={:?} content={:?} op={:?} populate={:?} checker={:?} bad_name={:?} missing_dirs={} fault_scratch={} futimens_eperm={} temp_mode={:?} foreign_mode={:o} fault_open={:?} fire={} ro_debris={} truncated_first_copy={:?} umask={:o} auto_sync={} judge_reads={} shards={} [{}]",
        pt.cfg.writer, pt.cfg.readers, pt.cfg.content, pt.op, pt.pop, pt.checker, pt.bad_name, pt.missing_dirs, pt.fault_scratch, sw.futimens_eperm, sw.temp_mode, sw.foreign_mode, open_fault_path, sw.fire, sw.ro_debris, trunc, sw.umask, sw.auto_sync, sw.judge_reads, nshards, kn.describe()
    );
    let mut fail = |prop: &'static str, class: &str, msg: String| {
        findings.push(MatFinding { prop, v: Violation::new(class, msg).attr("op", format!("{:?}", pt.op)) });
    };
    let got = if res.panic.is_some() {
        Exp::Panic
    } else {
        match &res.out {
            Ok(Out::Unit) => Exp::Unit,
            Ok(Out::Bool(b)) => Exp::Bool(*b),
            Ok(Out::Miss) => Exp::Miss,
            Ok(Out::Hit { data, .. }) => match parse_value(data) {
                Some((k, t)) if k == cname => Exp::Hit(t),
                _ => {
                    fail("c19", "handle-content", format!("returned handle does not read as a whole value: {}", describe_bytes(data)));
                    Exp::Hit(0)
                }
            },
            Ok(Out::Path(_)) => Exp::Unit,
            Err(e) => Exp::Err(Some(e.kind)),
        }
    };
    let matches = match (&exp, &got) {
        (Exp::Err(None), Exp::Err(_)) => true,
        (a, b) => a == b,
    };
    // (with a lenient checker the result is the checkerless one: C13's clause)
    let result_prop: &'static str = if strict { "c14" } else { "c13" };
    if !matches {
        fail(result_prop, "result", format!("expected {:?}, got {:?} ({}){}", exp, got, res.short(), if open_fault_hit { format!(" -- the open of the copy {} failed with EIO", open_fault_path.clone().unwrap_or_default()) } else { String::new() }));
    }
    // after a failed lookup the side effects up to that point are not predicted
    let matches = matches && !open_fault_hit;
    if res.panic.is_some() && exp == Exp::Panic {
        if !res.panic.as_ref().unwrap().contains("file contents do not match") {
            fail("c14", "panic-message", format!("unexpected panic: {:?}", res.panic));
        }
    }
    // judge argument and populate calls
    if matches && pt.bad_name.is_none() {
        if let MOp::Ensure | MOp::Gou(_) = pt.op {
            if let MOp::Gou(_) = pt.op {
                let saw = res.judge_saw.as_ref().map(|j| j.0);
                if saw != exp_judge {
                    fail("c13", "judge-arg", format!("judge saw primary={:?}, expected {:?}", saw, exp_judge));
                }
                if let (Some((_, bytes)), Some(f)) = (&res.judge_saw, first) {
                    let whole = make_value(&cname, content[f].unwrap(), sw.plen[content[f].unwrap() as usize]);
                    let n = sw.judge_reads.min(whole.len());
                    if bytes[..] != whole[..n] {
                        fail("c19", "judge-offset", format!("the judge did not read the hit from offset 0: got {:?}", describe_bytes(bytes)));
                    }
                }
            }
            if res.populate_called != exp_pop_called {
                fail(result_prop, "populate-call", format!("populate called={}, expected {}", res.populate_called, exp_pop_called));
            }
            if exp_pop_called {
                let old = res.populate_old.as_ref().map(|b| parse_value(b).map(|(_, t)| t).unwrap_or(0));
                if old != exp_pop_old {
                    fail("c13", "populate-old", format!("populate received old={:?}, expected {:?}", old, exp_pop_old));
                }
            }
        }
    }
    // trees
    let key_file = |snap: &Vec<(String, Stat, Option<std::sync::Arc<Vec<u8>>>)>| -> Vec<(String, Stat, Vec<u8>)> { snap.iter().filter(|(p, s, _)| !s.is_dir && p.ends_with(&format!("/{}", cname)) && !p.contains("/.kismet_temp/")).map(|(p, s, d)| (p.clone(), s.clone(), d.as_ref().map(|d| d.to_vec()).unwrap_or_default())).collect() };
    for i in 0..nl {
        let is_writer = has_writer && i == 0;
        let b = key_file(&before_op[i]);
        let a = key_file(&after[i]);
        if is_writer {
            let tags: Vec<Option<u32>> = a.iter().map(|(_, _, d)| parse_value(d).filter(|(k, _)| *k == cname).map(|(_, t)| t)).collect();
            let ok = match exp_writer {
                None => a.is_empty(),
                Some(t) => tags == vec![Some(t)],
            };
            // (a truncated planted copy does not parse as a value: its tree is
            // still compared through the rewritten-clause below)
            if !ok && matches && trunc.is_none() {
                fail(result_prop, "write-side", format!("write side holds {:?} for the key, expected {:?}", a.iter().map(|(p, _, d)| (p.clone(), describe_bytes(d))).collect::<Vec<_>>(), exp_writer));
            }
            if exp_writer == content[0] && !b.is_empty() && !a.is_empty() && (b[0].1.ino != a[0].1.ino || b[0].1.mtime != a[0].1.mtime) && matches && !matches!(pt.op, MOp::Set | MOp::SetTemp | MOp::Gou(Action::Replace)) {
                fail("c13", "write-side-rewritten", format!("the write-side copy was rewritten although it should be unchanged: {:?} -> {:?}", b[0].1, a[0].1));
            }
            for (p, s, _) in a.iter() {
                if s.mode & 0o222 != 0 {
                    fail("c19", "mode", format!("{} has mode {:o}", p, s.mode));
                }
                let through_library = matches!(pt.op, MOp::Ensure | MOp::Gou(_) | MOp::SetTemp | MOp::PutTemp);
                let fresh = b.first().map(|x| x.1.ino != s.ino).unwrap_or(true);
                if through_library && fresh && s.mode != 0o444 {
                    fail("c19", "mode-0444", format!("{} was populated by the library but has mode {:o} (umask {:o})", p, s.mode, sw.umask));
                }
            }
        } else {
            // read-only level: equal up to atime
            let b_all = &before_op[i];
            let a_all = &after[i];
            if b_all.len() != a_all.len() {
                fail("c15", "readonly-tree", format!("read-only level {} changed: {} -> {} entries ({:?})", dirs[i].path, b_all.len(), a_all.len(), a_all.iter().map(|x| &x.0).collect::<Vec<_>>()));
            } else {
                for (x, y) in b_all.iter().zip(a_all.iter()) {
                    let same = x.0 == y.0 && x.1.ino == y.1.ino && x.1.mode == y.1.mode && x.1.nlink == y.1.nlink && x.1.size == y.1.size && x.1.mtime == y.1.mtime && x.2 == y.2;
                    if !same {
                        fail("c15", "readonly-tree", format!("read-only entry changed: {} {:?} -> {:?}", x.0, x.1, y.1));
                    } else if y.1.atime != x.1.atime {
                        // only an entry that was found may have its atime advanced
                        // (an entry stamped in the reader's future gets its atime
                        // set to "now" by touch or by the kernel's relatime, which
                        // is smaller: only the direction of past stamps is judged)
                        let is_key = x.0.ends_with(&format!("/{}", cname)) || x.1.is_dir;
                        let future_stamped = x.1.atime > start_now || x.1.mtime > start_now;
                        if !is_key || (y.1.atime < x.1.atime && !future_stamped) {
                            fail("c15", "readonly-atime", format!("atime of {} changed {} -> {}", x.0, x.1.atime, y.1.atime));
                        }
                    }
                }
            }
        }
    }
    // touch marks exactly the first copy
    if pt.op == MOp::Touch && matches && pt.bad_name.is_none() {
        for i in 0..nl {
            let b = key_file(&before_op[i]);
            let a = key_file(&after[i]);
            if let (Some(b0), Some(a0)) = (b.first(), a.first()) {
                if Some(i) == first {
                    // (a copy stamped in the future cannot be marked by setting
                    // atime to now; clock skew is outside the statement)
                    let future_stamped = b0.1.mtime > start_now;
                    if (a0.1.atime < a0.1.mtime && !future_stamped) || a0.1.mtime != b0.1.mtime {
                        fail("c13", "touch-mark", format!("touch did not mark the first copy {}: {:?}", a0.0, a0.1));
                    }
                } else if a0.1.atime != b0.1.atime || a0.1.mtime != b0.1.mtime {
                    fail("c13", "touch-other", format!("touch changed the times of a later copy {}: {:?} -> {:?}", a0.0, b0.1, a0.1));
                }
            }
        }
    }
    // without a checker, levels below the first hit are not opened
    let opens_by_level: Vec<usize> = (0..nl).map(|i| trace.iter().filter(|r| r.kind == K::Open && r.raw.starts_with(&format!("{}/", dirs[i].path)) && !r.raw.contains(".kismet_temp") && r.raw.ends_with(&format!("/{}", key.name))).count()).collect();
    if !has_checker && pt.bad_name.is_none() && matches!(pt.op, MOp::Get | MOp::Ensure | MOp::Gou(_)) {
        if let Some(f) = first {
            for i in (f + 1)..nl {
                // the write side is re-read after a miss/replace; later
                // read-only levels never are
                if opens_by_level[i] > 0 && !(has_writer && i == 0) {
                    fail("c14", "consulted-later-copy", format!("no checker configured, first hit at level {}, yet level {} was opened", f, i));
                }
            }
        }
        if !log.is_empty() {
            fail("c14", "checker-called", "checker invoked although none is configured".to_string());
        }
    }
    // with a recording checker and success: the comparisons connect every
    // present copy (and the populated value when it is compared)
    if matches!(pt.checker, CheckerKind::Recording | CheckerKind::Lenient) && matches && pt.bad_name.is_none() && matches!(got, Exp::Hit(_)) && first.is_some() && !matches!(pt.op, MOp::Gou(Action::Replace)) {
        let mut inos: Vec<u64> = Vec::new();
        for i in present.iter() {
            if let Some((_, s, _)) = key_file(&before_op[*i]).first() {
                inos.push(s.ino);
            }
        }
        let mut adj: BTreeMap<u64, BTreeSet<u64>> = BTreeMap::new();
        for (x, y, _, _) in log.iter() {
            adj.entry(*x).or_default().insert(*y);
            adj.entry(*y).or_default().insert(*x);
        }
        let start = inos[0];
        let mut seen: BTreeSet<u64> = BTreeSet::new();
        let mut stack = vec![start];
        while let Some(n) = stack.pop() {
            if seen.insert(n) {
                if let Some(ns) = adj.get(&n) {
                    stack.extend(ns.iter().copied());
                }
            }
        }
        for (idx, ino) in inos.iter().enumerate() {
            if !seen.contains(ino) {
                fail("c14", "copy-not-compared", format!("copy at level {} (inode {}) was never handed to the checker together with the first copy's component; calls: {:?}", present[idx], ino, log.iter().map(|l| (l.0, l.1)).collect::<Vec<_>>()));
            }
        }
        let populate_compared = matches!(pt.op, MOp::Ensure | MOp::Gou(_)) && matches!(pt.pop, Pop::Val(_));
        if populate_compared {
            let other = log.iter().any(|(x, y, _, _)| (seen.contains(x) && !inos.contains(y)) || (seen.contains(y) && !inos.contains(x)));
            if !other {
                fail("c14", "populate-not-compared", format!("the freshly populated value was not compared with the hit; calls: {:?}", log.iter().map(|l| (l.0, l.1)).collect::<Vec<_>>()));
            }
        }
    }
    // returned handle: read-only, offset 0
    if let Ok(Out::Hit { fd: Some(fd), .. }) = &res.out {
        let throwaway = !has_writer && (first.is_none() || matches!(pt.op, MOp::Gou(Action::Replace)));
        if fd.off != 0 {
            fail("c19", "handle-offset", format!("returned handle positioned at offset {} ({})", fd.off, fd.path));
        }
        if !throwaway && (fd.write || !fd.read) {
            fail("c19", "handle-mode", format!("returned handle for cached data opened read={} write={} ({})", fd.read, fd.write, fd.path));
        }
    }
    // bad names: nothing at all may change (atime included)
    if pt.bad_name.is_some() {
        for i in 0..nl {
            if before_op[i] != after[i] {
                fail("c15", "bad-name-effect", format!("an invalid name changed {}", dirs[i].path));
            }
        }
    }
    let _ = (&before, is_write_op);
    // ride-along invariants
    {
        let inv = w.inv.lock().unwrap();
        for (name, msg) in inv.violations.iter() {
            let prop: &'static str = match *name {
                "readonly" => "c15",
                "mode" => "c19",
                "content" => "content",
                "immutable" => "immutable",
                "confined" => "confined",
                _ => "other",
            };
            findings.push(MatFinding { prop, v: Violation::new(name, msg.clone()) });
        }
        // missing read-only directories must stay missing
        for i in reader_idx.iter() {
            if pt.missing_dirs && content[*i].is_none() {
                if w.with_fs(|fs| fs.exists(&dirs[*i].path)) {
                    findings.push(MatFinding { prop: "c15", v: Violation::new("readonly-created", format!("missing read-only directory {} was created", dirs[*i].path)) });
                }
            }
        }
    }
    let mut counters = BTreeMap::new();
    if !log.is_empty() {
        counters.insert("checker_calls".to_string(), log.len() as u64);
    }
    if exp == Exp::Panic {
        counters.insert("probe:checker_panic".to_string(), 1);
    }
    if exp_writer != if has_writer { content[0] } else { None } {
        counters.insert("probe:write_side_changed".to_string(), 1);
    }
    let sig = hash_str(&format!("{:?}|{:?}|{:?}|{:?}|{:?}|{:?}|{:?}|{}", pt.cfg.writer, pt.cfg.readers, pt.cfg.content, pt.op, pt.pop, pt.checker, pt.bad_name, pt.missing_dirs));
    let tr = if detail || !findings.is_empty() { trace.iter().map(|r| r.short()).collect() } else { Vec::new() };
    let result = res.short();
    let fin = w.finish(tape);
    MatReport { findings, sig, steps: fin.steps, sim_ns: fin.sim_ns, desc, result, trace: tr, checker_calls: log.len(), counters }
}

pub fn to_runout(rep: MatReport, props: &[&str], detail: bool) -> RunOut {
    let mut out = RunOut::default();
    out.sig = rep.sig;
    out.steps = rep.steps;
    out.sim_ns = rep.sim_ns;
    out.nontrivial = true;
    for (k, v) in rep.counters.iter() {
        out.count(k, *v);
    }
    if let Some(f) = rep.findings.iter().find(|f| props.contains(&f.prop)) {
        let mut v = f.v.clone();
        v.detail.push(rep.desc.clone());
        v.detail.push(rep.result.clone());
        v.detail.extend(rep.trace.iter().cloned());
        out.violation = Some(v);
    } else if let Some(f) = rep.findings.first() {
        out.count(&format!("other_property_findings:{}:{}", f.prop, f.v.class), 1);
        if std::env::var("VERIF_DEBUG_OTHER").is_ok() {
            eprintln!("OTHER {} {}: {} || {}", f.prop, f.v.class, f.v.msg, rep.desc);
        }
    }
    if detail {
        out.sample = Some(J::obj().set("point", rep.desc.clone()).set("result", rep.result.clone()).set("checker_calls", rep.checker_calls));
    }
    out
}
