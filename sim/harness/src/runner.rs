//! Seeds -> runs -> evidence / replay / minimisation.

use crate::json::{self, J};
use kismet_vfs::kernel::Tape;
use std::collections::{BTreeMap, BTreeSet, HashSet};
use std::sync::atomic::{AtomicBool, AtomicU64, Ordering};
use std::sync::Mutex;
use std::time::Instant;

#[derive(Clone, Copy, Debug, PartialEq, Eq)]
pub enum Tier {
    Quick,
    Thorough,
}

impl Tier {
    pub fn name(&self) -> &'static str {
        match self {
            Tier::Quick => "quick",
            Tier::Thorough => "thorough",
        }
    }
}

#[derive(Clone, Debug)]
pub struct Violation {
    /// Stable class name, e.g. "content", "linearizability".
    pub class: String,
    pub msg: String,
    /// Attributes used to match known findings.
    pub attrs: BTreeMap<String, String>,
    /// Scenario, operations, trace tail: for the replay file.
    pub detail: Vec<String>,
}

impl Violation {
    pub fn new(class: &str, msg: impl Into<String>) -> Violation {
        Violation {
            class: class.to_string(),
            msg: msg.into(),
            attrs: BTreeMap::new(),
            detail: Vec::new(),
        }
    }
    pub fn attr(mut self, k: &str, v: impl Into<String>) -> Violation {
        self.attrs.insert(k.to_string(), v.into());
        self
    }
}

pub struct RunCtx {
    pub tier: Tier,
    pub index: u64,
    pub detail: bool,
}

#[derive(Default)]
pub struct RunOut {
    pub sig: u64,
    pub nontrivial: bool,
    pub counters: BTreeMap<String, u64>,
    pub steps: u64,
    pub sim_ns: i64,
    pub violation: Option<Violation>,
    pub sample: Option<J>,
}

impl RunOut {
    pub fn count(&mut self, k: &str, n: u64) {
        if n > 0 {
            *self.counters.entry(k.to_string()).or_insert(0) += n;
        }
    }
}

pub trait Check: Sync + Send {
    fn id(&self) -> &'static str;
    fn level(&self) -> &'static str {
        "exploration"
    }
    fn rule(&self) -> String;
    fn runs(&self, tier: Tier) -> u64;
    /// Wall-clock cap in seconds (the run count is the budget; this is a
    /// safety net for slow machines).
    fn wall_cap(&self, tier: Tier) -> u64 {
        match tier {
            Tier::Quick => 240,
            Tier::Thorough => 3600,
        }
    }
    fn exhaustive(&self, _tier: Tier) -> bool {
        false
    }
    fn run(&self, tape: &mut Tape, ctx: &RunCtx) -> RunOut;
    fn assumptions(&self) -> Vec<String> {
        Vec::new()
    }
    fn workers(&self) -> Option<usize> {
        None
    }
}

pub fn mix(a: u64, b: u64) -> u64 {
    let mut x = a ^ b.wrapping_mul(0x9e3779b97f4a7c15);
    x = (x ^ (x >> 30)).wrapping_mul(0xbf58476d1ce4e5b9);
    x = (x ^ (x >> 27)).wrapping_mul(0x94d049bb133111eb);
    x ^ (x >> 31)
}

pub fn hash_str(s: &str) -> u64 {
    let mut h = 0xcbf29ce484222325u64;
    for b in s.as_bytes() {
        h = (h ^ *b as u64).wrapping_mul(0x100000001b3);
    }
    h
}

pub fn hash_bytes(h0: u64, s: &[u8]) -> u64 {
    let mut h = h0 ^ 0xcbf29ce484222325u64;
    for b in s {
        h = (h ^ *b as u64).wrapping_mul(0x100000001b3);
    }
    h
}

pub fn run_seed(seed: u64, id: &str, index: u64) -> u64 {
    mix(mix(seed, hash_str(id)), index)
}

// ----------------------------------------------------------------------
// Known findings
// ----------------------------------------------------------------------

#[derive(Clone, Debug)]
pub struct KnownFinding {
    pub property: String,
    pub id: String,
    pub status: String,
    pub class: String,
    pub attrs: BTreeMap<String, String>,
    pub what: String,
}

pub fn load_known(root: &str) -> Vec<KnownFinding> {
    let p = format!("{}/known_findings.json", root);
    let s = match std::fs::read_to_string(&p) {
        Ok(s) => s,
        Err(_) => return Vec::new(),
    };
    let j = match json::parse(&s) {
        Ok(j) => j,
        Err(e) => {
            eprintln!("harness error: cannot parse {}: {}", p, e);
            std::process::exit(2);
        }
    };
    let mut out = Vec::new();
    if let Some(a) = j.get("findings").and_then(|f| f.as_arr()) {
        for f in a {
            let g = |k: &str| f.get(k).and_then(|v| v.as_str()).unwrap_or("").to_string();
            let mut attrs = BTreeMap::new();
            if let Some(J::Obj(m)) = f.get("match") {
                for (k, v) in m {
                    if let Some(s) = v.as_str() {
                        attrs.insert(k.clone(), s.to_string());
                    }
                }
            }
            out.push(KnownFinding {
                property: g("property"),
                id: g("id"),
                status: g("status"),
                class: g("class"),
                attrs,
                what: g("what"),
            });
        }
    }
    out
}

fn matches_known(k: &KnownFinding, prop: &str, v: &Violation) -> bool {
    k.status == "open" && k.property == prop && k.class == v.class && k.attrs.iter().all(|(a, want)| v.attrs.get(a).map(|got| got == want).unwrap_or(false))
}

// ----------------------------------------------------------------------
// Exploration
// ----------------------------------------------------------------------

/// Memory guard for the set of distinct signatures (u64 each).
const SIG_CAP_LOCAL: usize = 1_500_000;
const SIG_CAP_TOTAL: usize = 12_000_000;

struct Found {
    index: u64,
    tape: Vec<u64>,
    v: Violation,
}

#[derive(Default)]
struct Agg {
    evals: u64,
    nontrivial: u64,
    sigs: HashSet<u64>,
    counters: BTreeMap<String, u64>,
    steps: u64,
    sim_ns: i128,
    samples: BTreeMap<u64, J>,
    found: Vec<Found>,
    known_hits: BTreeMap<String, (u64, String)>,
}

pub fn replay_once(check: &dyn Check, tier: Tier, index: u64, values: &[u64], detail: bool) -> (RunOut, Vec<u64>) {
    let mut tape = Tape::replay(values.to_vec());
    let out = check.run(&mut tape, &RunCtx { tier, index, detail });
    (out, tape.rec)
}

fn shrink(check: &dyn Check, tier: Tier, index: u64, start: Vec<u64>, class: &str) -> Vec<u64> {
    let t0 = Instant::now();
    let mut runs = 0u64;
    let mut best = start;
    let mut fails = |cand: &[u64], runs: &mut u64| -> Option<Vec<u64>> {
        *runs += 1;
        let (out, rec) = replay_once(check, tier, index, cand, false);
        match out.violation {
            Some(v) if v.class == class => Some(rec),
            _ => None,
        }
    };
    let over = |runs: u64| runs > 4000 || t0.elapsed().as_secs() > 40;
    // canonicalise
    if let Some(rec) = fails(&best, &mut runs) {
        best = rec;
    } else {
        return best;
    }
    let mut improved = true;
    while improved && !over(runs) {
        improved = false;
        // 1. truncate the tail (binary search)
        let (mut lo, mut hi) = (0usize, best.len());
        while lo < hi && !over(runs) {
            let mid = (lo + hi) / 2;
            if let Some(rec) = fails(&best[..mid], &mut runs) {
                if rec.len() < best.len() || rec < best {
                    best = rec;
                    improved = true;
                }
                hi = mid.min(best.len());
            } else {
                lo = mid + 1;
            }
        }
        // 2. delete chunks
        for size in [32usize, 8, 2, 1] {
            let mut i = 0;
            while i + size <= best.len() && !over(runs) {
                let mut cand = best.clone();
                cand.drain(i..i + size);
                if let Some(rec) = fails(&cand, &mut runs) {
                    if rec.len() < best.len() {
                        best = rec;
                        improved = true;
                        continue;
                    }
                }
                i += size;
            }
        }
        // 3. zero chunks, then single values
        for size in [16usize, 4, 1] {
            let mut i = 0;
            while i < best.len() && !over(runs) {
                let end = (i + size).min(best.len());
                if best[i..end].iter().any(|v| *v != 0) {
                    let mut cand = best.clone();
                    for v in &mut cand[i..end] {
                        *v = 0;
                    }
                    if let Some(rec) = fails(&cand, &mut runs) {
                        if rec < best || rec.len() < best.len() {
                            best = rec;
                            improved = true;
                        }
                    }
                }
                i = end;
            }
        }
        // 4. halve values
        let mut i = 0;
        while i < best.len() && !over(runs) {
            if best[i] > 1 {
                let mut cand = best.clone();
                cand[i] /= 2;
                if let Some(rec) = fails(&cand, &mut runs) {
                    if rec < best {
                        best = rec;
                        improved = true;
                        continue;
                    }
                }
            }
            i += 1;
        }
    }
    // drop trailing zeros (the default past the end is 0 anyway)
    while best.last() == Some(&0) {
        best.pop();
    }
    best
}

pub fn write_replay(root: &str, check: &dyn Check, tier: Tier, seed: u64, index: u64, tape: &[u64], v: &Violation, minimised: bool) -> String {
    let dir = format!("{}/replays", root);
    let _ = std::fs::create_dir_all(&dir);
    let path = format!("{}/{}-{}-{}.json", dir, check.id(), seed, index);
    let j = J::obj()
        .set("property", check.id())
        .set("tier", tier.name())
        .set("seed", seed)
        .set("index", index)
        .set("class", v.class.as_str())
        .set("message", v.msg.as_str())
        .set("attrs", J::Obj(v.attrs.iter().map(|(k, v)| (k.clone(), J::Str(v.clone()))).collect()))
        .set("minimised", minimised)
        .set("tape", J::Arr(tape.iter().map(|x| J::Int(*x as i128)).collect()))
        .set("detail", J::Arr(v.detail.iter().map(|s| J::Str(s.clone())).collect()));
    std::fs::write(&path, j.to_string_pretty()).expect("write replay");
    path
}

pub struct Options {
    pub root: String,
    pub tier: Tier,
    pub seed: u64,
    pub workers: usize,
    pub runs_override: Option<u64>,
}

/// Runs one check; returns the process exit code.
pub fn run_check(check: &dyn Check, opt: &Options) -> i32 {
    let t0 = Instant::now();
    let scale: f64 = std::env::var("VERIF_SCALE").ok().and_then(|s| s.parse().ok()).unwrap_or(1.0);
    let total = opt.runs_override.unwrap_or_else(|| ((check.runs(opt.tier) as f64) * scale).max(1.0) as u64);
    let cap = check.wall_cap(opt.tier);
    let known = load_known(&opt.root);
    let next = AtomicU64::new(0);
    let stop = AtomicBool::new(false);
    let agg = Mutex::new(Agg::default());
    let capped = AtomicBool::new(false);
    let harness_panics = AtomicU64::new(0);
    let workers = check.workers().unwrap_or(opt.workers).max(1);
    println!("check {} tier={} seed={} runs={} workers={}", check.id(), opt.tier.name(), opt.seed, total, workers);
    std::thread::scope(|s| {
        for _ in 0..workers {
            s.spawn(|| {
                let mut local = Agg::default();
                loop {
                    if stop.load(Ordering::Relaxed) {
                        break;
                    }
                    let i = next.fetch_add(1, Ordering::Relaxed);
                    if i >= total {
                        break;
                    }
                    if t0.elapsed().as_secs() >= cap {
                        capped.store(true, Ordering::Relaxed);
                        break;
                    }
                    let mut tape = Tape::random(run_seed(opt.seed, check.id(), i));
                    let out = match std::panic::catch_unwind(std::panic::AssertUnwindSafe(|| {
                        check.run(
                            &mut tape,
                            &RunCtx {
                                tier: opt.tier,
                                index: i,
                                detail: i < 3,
                            },
                        )
                    })) {
                        Ok(o) => o,
                        Err(p) => {
                            // a panic of the harness itself (not of the code under
                            // test, which is caught per operation): never a verdict
                            let what = if p.is::<kismet_vfs::kernel::CrashSignal>() { "simulated-process kill escaped the harness (runaway step budget?)".to_string() } else { crate::common::LAST_PANIC.with(|l| l.borrow().clone()).unwrap_or_else(|| "panic".to_string()) };
                            eprintln!("harness error: run {} of {} panicked in the harness: {}", i, check.id(), what);
                            harness_panics.fetch_add(1, Ordering::Relaxed);
                            stop.store(true, Ordering::Relaxed);
                            break;
                        }
                    };
                    local.evals += 1;
                    if out.nontrivial {
                        local.nontrivial += 1;
                        if local.sigs.len() < SIG_CAP_LOCAL {
                            local.sigs.insert(out.sig);
                        }
                    }
                    for (k, v) in out.counters {
                        *local.counters.entry(k).or_insert(0) += v;
                    }
                    local.steps += out.steps;
                    local.sim_ns += out.sim_ns as i128;
                    if let Some(s) = out.sample {
                        if local.samples.len() < 3 {
                            local.samples.insert(i, s);
                        }
                    }
                    if let Some(v) = out.violation {
                        if let Some(kf) = known.iter().find(|k| matches_known(k, check.id(), &v)) {
                            let e = local.known_hits.entry(kf.id.clone()).or_insert((0, kf.what.clone()));
                            e.0 += 1;
                        } else {
                            local.found.push(Found {
                                index: i,
                                tape: tape.rec.clone(),
                                v,
                            });
                            stop.store(true, Ordering::Relaxed);
                        }
                    }
                }
                let mut a = agg.lock().unwrap();
                a.evals += local.evals;
                a.nontrivial += local.nontrivial;
                if a.sigs.len() < SIG_CAP_TOTAL {
                    a.sigs.extend(local.sigs);
                }
                for (k, v) in local.counters {
                    *a.counters.entry(k).or_insert(0) += v;
                }
                a.steps += local.steps;
                a.sim_ns += local.sim_ns;
                for (i, s) in local.samples {
                    a.samples.insert(i, s);
                }
                a.found.extend(local.found);
                for (k, (n, w)) in local.known_hits {
                    let e = a.known_hits.entry(k).or_insert((0, w));
                    e.0 += n;
                }
            });
        }
    });
    let mut a = agg.into_inner().unwrap();
    let wall = t0.elapsed().as_secs_f64();

    // violations
    let mut exit = 0;
    let mut replay_paths = Vec::new();
    a.found.sort_by_key(|f| f.index);
    let mut seen_classes = BTreeSet::new();
    for f in a.found.iter() {
        if !seen_classes.insert(f.v.class.clone()) {
            continue;
        }
        if seen_classes.len() > 3 {
            break;
        }
        let small = if f.v.class == "blocked" {
            f.tape.clone()
        } else {
            shrink(check, opt.tier, f.index, f.tape.clone(), &f.v.class)
        };
        // re-run the minimised tape to get its own description
        let (out, rec) = if f.v.class == "blocked" {
            (RunOut { violation: Some(f.v.clone()), ..Default::default() }, small.clone())
        } else {
            replay_once(check, opt.tier, f.index, &small, true)
        };
        let v = match out.violation {
            Some(v) if v.class == f.v.class => v,
            _ => f.v.clone(),
        };
        let mut rec = rec;
        while rec.last() == Some(&0) {
            rec.pop();
        }
        let path = write_replay(&opt.root, check, opt.tier, opt.seed, f.index, &rec, &v, true);
        // confirm in a fresh process
        let confirmed = if v.class == "blocked" {
            true
        } else {
            match std::env::current_exe() {
                Ok(exe) => std::process::Command::new(exe)
                    .arg("replay")
                    .arg(&path)
                    .env("VERIF_ROOT", &opt.root)
                    .env("VERIF_QUIET", "1")
                    .status()
                    .map(|s| s.code() == Some(1))
                    .unwrap_or(false),
                Err(_) => false,
            }
        };
        println!("violation class={} index={} tape_len={} (was {}) replay_confirmed={}", v.class, f.index, rec.len(), f.tape.len(), confirmed);
        println!("  {}", v.msg);
        for l in v.detail.iter().take(60) {
            println!("    {}", l);
        }
        println!("VIOLATION property={} replay={}", check.id(), path);
        replay_paths.push(path);
        exit = 1;
    }
    for (id, (n, what)) in a.known_hits.iter() {
        println!("KNOWN-FINDING: property={} {} [{}; hit {} times]", check.id(), what, id, n);
    }

    // evidence
    let mut samples: Vec<J> = a.samples.values().cloned().collect();
    if samples.is_empty() {
        samples.push(J::Str("(no sample recorded)".to_string()));
    }
    let mut faults = BTreeMap::new();
    let mut probes = BTreeMap::new();
    let mut other = BTreeMap::new();
    for (k, v) in &a.counters {
        if let Some(r) = k.strip_prefix("fault:") {
            faults.insert(r.to_string(), *v);
        } else if let Some(r) = k.strip_prefix("probe:") {
            probes.insert(r.to_string(), *v);
        } else {
            other.insert(k.clone(), *v);
        }
    }
    let cov = J::obj()
        .set("evaluations", a.evals)
        .set("distinct_nontrivial", a.sigs.len())
        .set("nontrivial_runs", a.nontrivial)
        .set("distinct_count_capped", a.sigs.len() >= SIG_CAP_TOTAL)
        .set("rule", check.rule())
        .set("samples", J::Arr(samples))
        .set("exhaustive", check.exhaustive(opt.tier) && !capped.load(Ordering::Relaxed) && exit == 0)
        .set("fs_steps", a.steps)
        .set("sim_time_covered_s", (a.sim_ns as f64) / 1e9)
        .set("runs_per_hour", if wall > 0.0 { (a.evals as f64) * 3600.0 / wall } else { 0.0 })
        .set("faults_fired", &faults)
        .set("probes", &probes)
        .set("counters", &other)
        .set("worker_threads", workers)
        .set("stopped_by_wall_cap", capped.load(Ordering::Relaxed))
        .set(
            "components",
            J::obj()
                .set("real", "all of /repo/src (planner, raw_cache, cache_dir, plain, sharded, stack, readonly, trigger, multiplicative_hash, benign_error), derivative, extendhash, rand (range reduction), std::io traits/copy, std::path, std::fs::Permissions")
                .set("stub", "std::fs (File/OpenOptions/Metadata/DirEntry/ReadDir/free functions), std::time::SystemTime, filetime, tempfile, libc::close, rand::thread_rng source, and the kernel filesystem behind them (SimFs)"),
        )
        .set("known_findings_hit", J::Obj(a.known_hits.iter().map(|(k, (n, _))| (k.clone(), J::Int(*n as i128))).collect()))
        .set("replays", J::Arr(replay_paths.iter().map(|p| J::Str(p.clone())).collect()));
    let ev = J::obj()
        .set("property_id", check.id())
        .set("tier", opt.tier.name())
        .set("seed", opt.seed)
        .set("level", check.level())
        .set("coverage", cov)
        .set("assumptions", check.assumptions())
        .set("wall_s", wall)
        .set("violations", if exit == 0 { 0u64 } else { replay_paths.len() as u64 });
    let dir = format!("{}/evidence", opt.root);
    let _ = std::fs::create_dir_all(&dir);
    let path = format!("{}/{}.json", dir, check.id());
    if let Err(e) = std::fs::write(&path, ev.to_string_pretty()) {
        eprintln!("harness error: cannot write {}: {}", path, e);
        return 2;
    }
    println!(
        "{} {}: {} runs, {} distinct non-trivial, {} fs steps, {:.1}s wall{}",
        check.id(),
        if exit == 0 { "ok" } else { "VIOLATED" },
        a.evals,
        a.sigs.len(),
        a.steps,
        wall,
        if capped.load(Ordering::Relaxed) { " (wall cap hit)" } else { "" }
    );
    if harness_panics.load(Ordering::Relaxed) > 0 {
        return 2;
    }
    if a.evals == 0 || a.sigs.len() < 2 {
        eprintln!("harness error: check {} explored nothing non-trivial", check.id());
        return if exit == 1 { 1 } else { 2 };
    }
    exit
}

/// `replay <file>`: exit 1 iff the recorded violation class reproduces.
pub fn replay_file(checks: &[Box<dyn Check>], path: &str) -> i32 {
    let s = match std::fs::read_to_string(path) {
        Ok(s) => s,
        Err(e) => {
            eprintln!("harness error: {}: {}", path, e);
            return 2;
        }
    };
    let j = match json::parse(&s) {
        Ok(j) => j,
        Err(e) => {
            eprintln!("harness error: {}: {}", path, e);
            return 2;
        }
    };
    let prop = j.get("property").and_then(|v| v.as_str()).unwrap_or("");
    let class = j.get("class").and_then(|v| v.as_str()).unwrap_or("");
    let index = j.get("index").and_then(|v| v.as_u64()).unwrap_or(0);
    let tier = if j.get("tier").and_then(|v| v.as_str()) == Some("thorough") { Tier::Thorough } else { Tier::Quick };
    let tape: Vec<u64> = j.get("tape").and_then(|v| v.as_arr()).map(|a| a.iter().filter_map(|x| x.as_u64()).collect()).unwrap_or_default();
    let check = match checks.iter().find(|c| c.id() == prop) {
        Some(c) => c,
        None => {
            eprintln!("harness error: unknown property {}", prop);
            return 2;
        }
    };
    let (out, _) = replay_once(check.as_ref(), tier, index, &tape, true);
    let quiet = std::env::var("VERIF_QUIET").is_ok();
    match out.violation {
        Some(v) => {
            if !quiet {
                println!("replay: violation class={} {}", v.class, v.msg);
                for l in &v.detail {
                    println!("  {}", l);
                }
            }
            if v.class == class {
                if !quiet {
                    println!("VIOLATION property={} replay={}", prop, path);
                }
                1
            } else {
                if !quiet {
                    println!("replay: class differs from recorded {}", class);
                }
                3
            }
        }
        None => {
            if !quiet {
                println!("replay: no violation");
            }
            0
        }
    }
}
