//! Construction of a simulated world (filesystem + Sim + invariants) and
//! the inline (sequential) driver.

use crate::common::*;
use kismet_vfs::kernel::{self as k, ClockRegime, Rec, Rng64, Sim, Tape};
use kismet_vfs::simfs::{AtimePolicy, FsCfg, SimFs, Ts};
use std::sync::{Arc, Mutex};

pub const SCRATCH: &str = "/sim/app";
pub const BASE_TIME: Ts = 1_700_000_000_000_000_000;

#[derive(Clone, Debug)]
pub struct FsKnobs {
    pub gran_ns: i64,
    pub atime: AtimePolicy,
    pub batch: usize,
    pub dir_seed: u64,
    pub regime: ClockRegime,
    pub clock_seed: u64,
    pub base: Ts,
    /// permille of reads/writes cut short (legal kernel behaviour)
    pub short_io: u64,
}

impl FsKnobs {
    /// Distinct clock readings are stored as distinct timestamps.
    pub fn strict_order(&self) -> bool {
        self.gran_ns == 1 && matches!(self.regime, ClockRegime::Micros | ClockRegime::Millis | ClockRegime::Seconds)
    }
    pub fn describe(&self) -> String {
        format!("gran={}ns atime={:?} readdir_batch={} clock={:?} short_io={}", self.gran_ns, self.atime, self.batch, self.regime, self.short_io)
    }
}

pub fn draw_knobs(t: &mut Tape) -> FsKnobs {
    let gran_ns = *t.pick(&[1i64, 1, 1_000, 1_000_000_000, 2_000_000_000]);
    let atime = *t.pick(&[AtimePolicy::Relatime, AtimePolicy::Relatime, AtimePolicy::Noatime, AtimePolicy::Strict]);
    let batch = *t.pick(&[32usize, 1, 2, 3, 7, 64]);
    let dir_seed = t.draw(1 << 32);
    let regime = *t.pick(&[ClockRegime::Micros, ClockRegime::Tiny, ClockRegime::Millis, ClockRegime::Seconds, ClockRegime::Mixed]);
    let clock_seed = t.draw(1 << 32);
    // base time: seeded, second-aligned or not
    let base = BASE_TIME + (t.draw(1_000_000) as i64) * 1_000_003;
    let short_io = *t.pick(&[0u64, 0, 300]);
    FsKnobs {
        gran_ns,
        atime,
        batch,
        dir_seed,
        regime,
        clock_seed,
        base,
        short_io,
    }
}

pub fn new_fs(kn: &FsKnobs) -> SimFs {
    let mut fs = SimFs::new(
        FsCfg {
            gran_ns: kn.gran_ns,
            atime: kn.atime,
            enforce_perms: true,
            dir_seed: kn.dir_seed,
            readdir_batch: kn.batch,
        },
        kn.base,
    );
    fs.mkdir_all("/tmp");
    fs.mkdir_all(SCRATCH);
    fs
}

pub struct World {
    pub sim: Arc<Sim>,
    pub dirs: Vec<DirSpec>,
    pub inv: Arc<Mutex<InvState>>,
    pub log: CheckerLog,
    pub nprocs: usize,
    /// saved trigger countdown per process (inline mode)
    countdowns: Vec<u64>,
    cur: usize,
    pub next_op: u32,
    pub chunk: usize,
    pub temp_mode: Option<u32>,
    pub link_from: Option<String>,
    pub src_skew_ns: i64,
    attached: bool,
}

pub struct WorldCfg {
    pub readonly: Vec<usize>,
    pub check_confined: bool,
    pub extra_writable: Vec<String>,
}

impl Default for WorldCfg {
    fn default() -> Self {
        WorldCfg {
            readonly: Vec::new(),
            check_confined: false,
            extra_writable: Vec::new(),
        }
    }
}

impl World {
    /// Takes the tape (returned by `finish`).
    pub fn new(fs: SimFs, kn: &FsKnobs, tape: &mut Tape, nprocs: usize, nparts: usize, dirs: Vec<DirSpec>, cfg: WorldCfg) -> World {
        let t = std::mem::replace(tape, Tape::replay(Vec::new()));
        let sim = Sim::new(fs, t, nprocs, nparts);
        let inv = Arc::new(Mutex::new(InvState::default()));
        {
            let mut st = sim.lock();
            st.clock_rng = Rng64::new(kn.clock_seed);
            st.clock_regime = kn.regime;
            st.short_io = kn.short_io;
            let mut writable: Vec<String> = dirs.iter().map(|d| d.path.clone()).collect();
            writable.push(SCRATCH.to_string());
            writable.push("/tmp".to_string());
            writable.extend(cfg.extra_writable.iter().cloned());
            st.observer = Some(make_observer(
                InvCfg {
                    dirs: dirs.clone(),
                    readonly: cfg.readonly.clone(),
                    writable_roots: writable,
                    check_confined: cfg.check_confined,
                },
                inv.clone(),
            ));
        }
        World {
            sim,
            dirs,
            inv,
            log: Arc::new(Mutex::new(Vec::new())),
            nprocs,
            countdowns: vec![0; nprocs],
            cur: 0,
            next_op: 1,
            chunk: 8192,
            temp_mode: None,
            link_from: None,
            src_skew_ns: 0,
            attached: false,
        }
    }

    pub fn draw(&self, bound: u64) -> u64 {
        self.sim.lock().tape.draw(bound)
    }

    /// Inline mode: the calling thread acts as process `p`.
    pub fn enter(&mut self, p: usize) {
        if !self.attached {
            k::attach(&self.sim, None, p);
            // fresh-thread state for the trigger countdown
            let _ = kismet_cache::verif_swap_countdown(self.countdowns[p]);
            self.attached = true;
            self.cur = p;
            return;
        }
        if p != self.cur {
            self.countdowns[self.cur] = kismet_cache::verif_swap_countdown(self.countdowns[p]);
            self.cur = p;
            k::set_proc(p);
        }
    }

    pub fn leave(&mut self) {
        if self.attached {
            self.countdowns[self.cur] = kismet_cache::verif_swap_countdown(0);
            k::detach();
            self.attached = false;
        }
    }

    pub fn env(&self, p: usize) -> OpEnv {
        OpEnv {
            sim: self.sim.clone(),
            proc: p,
            part: -1,
            scratch: SCRATCH.to_string(),
            chunk: self.chunk,
            temp_mode: self.temp_mode,
            link_from: self.link_from.clone(),
            src_skew_ns: self.src_skew_ns,
        }
    }

    /// Runs one operation inline as process `p`.
    pub fn op(&mut self, p: usize, hidx: usize, h: &Handle, kidx: usize, key: &KeySpec, op: &Op) -> OpRes {
        self.enter(p);
        let id = self.next_op;
        self.next_op += 1;
        let env = self.env(p);
        exec_op(&env, id, hidx, h, kidx, key, op)
    }

    pub fn build(&self, spec: &HandleSpec) -> Handle {
        build_handle(spec, &self.dirs, &self.log)
    }

    pub fn step(&self) -> u64 {
        self.sim.lock().step
    }

    pub fn fs_clone(&self) -> SimFs {
        self.sim.lock().fs.clone()
    }

    pub fn with_fs<R>(&self, f: impl FnOnce(&mut SimFs) -> R) -> R {
        f(&mut self.sim.lock().fs)
    }

    pub fn trace_from(&self, from: usize) -> Vec<Rec> {
        self.sim.lock().trace[from..].to_vec()
    }

    pub fn trace_len(&self) -> usize {
        self.sim.lock().trace.len()
    }

    pub fn advance(&self, ns: i64) {
        self.sim.lock().fs.now += ns;
    }

    /// Scripts the trigger so that the next write of process `p` maintains
    /// (draw 1: the countdown fires at once) or never does (draw u64::MAX
    /// with a huge period).
    pub fn script_trigger(&self, p: usize, draws: Vec<u64>, default: k::DrawPolicy) {
        let mut st = self.sim.lock();
        st.procs[p].trigger_script = draws;
        st.procs[p].trigger_default = default;
    }

    pub fn script_shard(&self, p: usize, draws: Vec<u64>, default: k::DrawPolicy) {
        let mut st = self.sim.lock();
        st.procs[p].shard_script = draws;
        st.procs[p].shard_default = default;
    }

    /// Returns the tape and final bookkeeping.
    pub fn finish(mut self, tape: &mut Tape) -> Finished {
        self.leave();
        let mut st = self.sim.lock();
        *tape = std::mem::replace(&mut st.tape, Tape::replay(Vec::new()));
        st.observer = None;
        st.injector = None;
        let mut faults = Vec::new();
        for ((kind, e), n) in st.faults_fired.iter() {
            faults.push((format!("fault:{:?}/{}", kind, errno_name(*e)), *n));
        }
        if st.short_fired > 0 {
            faults.push(("fault:short_io".to_string(), st.short_fired));
        }
        if st.stale_fired > 0 {
            faults.push(("fault:estale_for_enoent".to_string(), st.stale_fired));
        }
        Finished {
            steps: st.step,
            sim_ns: st.fs.now - st.sim_start,
            switches: st.switches,
            faults,
            aborted: st.aborted.clone(),
        }
    }
}

pub struct Finished {
    pub steps: u64,
    pub sim_ns: i64,
    pub switches: u64,
    pub faults: Vec<(String, u64)>,
    pub aborted: Option<String>,
}

pub fn errno_name(e: i32) -> &'static str {
    match e {
        libc::EIO => "EIO",
        libc::EACCES => "EACCES",
        libc::EMFILE => "EMFILE",
        libc::ENFILE => "ENFILE",
        libc::ENOMEM => "ENOMEM",
        libc::ESTALE => "ESTALE",
        libc::ENOSPC => "ENOSPC",
        libc::EDQUOT => "EDQUOT",
        libc::EINTR => "EINTR",
        libc::EPERM => "EPERM",
        libc::EROFS => "EROFS",
        libc::EXDEV => "EXDEV",
        libc::EMLINK => "EMLINK",
        libc::ENOENT => "ENOENT",
        libc::EEXIST => "EEXIST",
        libc::ENOTDIR => "ENOTDIR",
        libc::EISDIR => "EISDIR",
        libc::EBADF => "EBADF",
        _ => "E?",
    }
}

/// Draw for the trigger that makes the countdown fire on the next event
/// whatever the period (1 <= any weight).
pub const FIRE_NOW: u64 = 1;
/// Draw that makes the countdown last as long as possible.
pub const FIRE_LATE: u64 = u64::MAX;

/// A value for `gen_range(0..n)` (rand 0.8 widening-multiply sampling)
/// that yields `want`.
pub fn shard_draw(n: usize, want: usize) -> u64 {
    let n = n.max(2) as u128;
    (((4 * want as u128 + 1) << 62) / n) as u64 + 1
}

pub fn trace_tail(trace: &[Rec], n: usize) -> Vec<String> {
    let start = trace.len().saturating_sub(n);
    trace[start..].iter().map(|r| r.short()).collect()
}
