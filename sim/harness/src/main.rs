//! kismet-sim: deterministic simulation checks for kismet-cache.

mod checks;
mod common;
mod conc;
mod hist;
mod json;
mod runner;
mod sc_model;
mod scen;
mod selftest;
mod stackmat;
mod world;

use runner::{Options, Tier};

fn usage() -> ! {
    eprintln!("usage: kismet-sim check <ID> [--tier quick|thorough] [--seed N] [--runs N] [--workers N]");
    eprintln!("       kismet-sim replay <file>");
    eprintln!("       kismet-sim selftest <determinism|conformance|quick>");
    eprintln!("       kismet-sim list");
    std::process::exit(2);
}

fn main() {
    common::install_panic_hook();
    let args: Vec<String> = std::env::args().collect();
    if args.len() < 2 {
        usage();
    }
    let root = std::env::var("VERIF_ROOT").unwrap_or_else(|_| "/verif".to_string());
    let all = checks::all();
    match args[1].as_str() {
        "list" => {
            for c in &all {
                println!("{}", c.id());
            }
        }
        "check" => {
            if args.len() < 3 {
                usage();
            }
            let id = args[2].clone();
            let mut tier = match std::env::var("VERIF_TIER").ok().as_deref() {
                Some("thorough") => Tier::Thorough,
                _ => Tier::Quick,
            };
            let mut seed: u64 = std::env::var("VERIF_SEED").ok().and_then(|s| s.parse().ok()).unwrap_or(20260917);
            let mut runs = None;
            let mut workers: usize = std::env::var("VERIF_WORKERS").ok().and_then(|s| s.parse().ok()).unwrap_or_else(|| std::thread::available_parallelism().map(|n| n.get()).unwrap_or(4));
            let mut i = 3;
            while i < args.len() {
                match args[i].as_str() {
                    "--tier" => {
                        i += 1;
                        tier = if args.get(i).map(|s| s.as_str()) == Some("thorough") { Tier::Thorough } else { Tier::Quick };
                    }
                    "--seed" => {
                        i += 1;
                        seed = args.get(i).and_then(|s| s.parse().ok()).unwrap_or(seed);
                    }
                    "--runs" => {
                        i += 1;
                        runs = args.get(i).and_then(|s| s.parse().ok());
                    }
                    "--workers" => {
                        i += 1;
                        workers = args.get(i).and_then(|s| s.parse().ok()).unwrap_or(workers);
                    }
                    _ => usage(),
                }
                i += 1;
            }
            let check = match all.iter().find(|c| c.id() == id) {
                Some(c) => c,
                None => {
                    eprintln!("harness error: unknown check {}", id);
                    std::process::exit(2);
                }
            };
            let code = runner::run_check(check.as_ref(), &Options { root, tier, seed, workers, runs_override: runs });
            std::process::exit(code);
        }
        "selftest" => {
            let what = args.get(2).map(|s| s.as_str()).unwrap_or("quick");
            let mut runs = 200u64;
            let mut workers = 16usize;
            let mut i = 3;
            while i < args.len() {
                match args[i].as_str() {
                    "--runs" | "--progs" => {
                        i += 1;
                        runs = args.get(i).and_then(|s| s.parse().ok()).unwrap_or(runs);
                    }
                    "--workers" => {
                        i += 1;
                        workers = args.get(i).and_then(|s| s.parse().ok()).unwrap_or(workers);
                    }
                    _ => usage(),
                }
                i += 1;
            }
            let code = match what {
                "determinism" => selftest::determinism(&all, runs),
                "digest" => {
                    selftest::print_digest(&all, runs, workers);
                    0
                }
                "conformance" => selftest::conformance(runs),
                "quick" => {
                    let a = selftest::determinism(&all, 60);
                    let b = selftest::conformance(300);
                    if a == 0 && b == 0 {
                        0
                    } else {
                        2
                    }
                }
                _ => usage(),
            };
            std::process::exit(code);
        }
        "replay" => {
            if args.len() < 3 {
                usage();
            }
            std::process::exit(runner::replay_file(&all, &args[2]));
        }
        _ => usage(),
    }
}
