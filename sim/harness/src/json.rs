//! Minimal JSON value, writer and parser (no external crates).

use std::collections::BTreeMap;

#[derive(Clone, Debug, PartialEq)]
pub enum J {
    Null,
    Bool(bool),
    Int(i128),
    Num(f64),
    Str(String),
    Arr(Vec<J>),
    Obj(BTreeMap<String, J>),
}

impl J {
    pub fn obj() -> J {
        J::Obj(BTreeMap::new())
    }
    pub fn set(mut self, k: &str, v: impl Into<J>) -> J {
        if let J::Obj(m) = &mut self {
            m.insert(k.to_string(), v.into());
        }
        self
    }
    pub fn put(&mut self, k: &str, v: impl Into<J>) {
        if let J::Obj(m) = self {
            m.insert(k.to_string(), v.into());
        }
    }
    pub fn get(&self, k: &str) -> Option<&J> {
        match self {
            J::Obj(m) => m.get(k),
            _ => None,
        }
    }
    pub fn as_str(&self) -> Option<&str> {
        match self {
            J::Str(s) => Some(s),
            _ => None,
        }
    }
    pub fn as_u64(&self) -> Option<u64> {
        match self {
            J::Int(i) => Some(*i as u64),
            J::Num(f) => Some(*f as u64),
            _ => None,
        }
    }
    pub fn as_arr(&self) -> Option<&Vec<J>> {
        match self {
            J::Arr(a) => Some(a),
            _ => None,
        }
    }
    pub fn to_string_pretty(&self) -> String {
        let mut s = String::new();
        self.write(&mut s, 0);
        s.push('\n');
        s
    }
    fn write(&self, out: &mut String, ind: usize) {
        match self {
            J::Null => out.push_str("null"),
            J::Bool(b) => out.push_str(if *b { "true" } else { "false" }),
            J::Int(i) => out.push_str(&i.to_string()),
            J::Num(f) => {
                if f.is_finite() {
                    out.push_str(&format!("{}", f));
                } else {
                    out.push_str("0")
                }
            }
            J::Str(s) => write_str(out, s),
            J::Arr(a) => {
                if a.is_empty() {
                    out.push_str("[]");
                    return;
                }
                let simple = a.iter().all(|x| matches!(x, J::Int(_) | J::Num(_) | J::Bool(_)));
                if simple {
                    out.push('[');
                    for (i, x) in a.iter().enumerate() {
                        if i > 0 {
                            out.push_str(", ");
                        }
                        x.write(out, 0);
                    }
                    out.push(']');
                    return;
                }
                out.push_str("[\n");
                for (i, x) in a.iter().enumerate() {
                    out.push_str(&" ".repeat(ind + 1));
                    x.write(out, ind + 1);
                    if i + 1 < a.len() {
                        out.push(',');
                    }
                    out.push('\n');
                }
                out.push_str(&" ".repeat(ind));
                out.push(']');
            }
            J::Obj(m) => {
                if m.is_empty() {
                    out.push_str("{}");
                    return;
                }
                out.push_str("{\n");
                let n = m.len();
                for (i, (k, v)) in m.iter().enumerate() {
                    out.push_str(&" ".repeat(ind + 1));
                    write_str(out, k);
                    out.push_str(": ");
                    v.write(out, ind + 1);
                    if i + 1 < n {
                        out.push(',');
                    }
                    out.push('\n');
                }
                out.push_str(&" ".repeat(ind));
                out.push('}');
            }
        }
    }
}

fn write_str(out: &mut String, s: &str) {
    out.push('"');
    for c in s.chars() {
        match c {
            '"' => out.push_str("\\\""),
            '\\' => out.push_str("\\\\"),
            '\n' => out.push_str("\\n"),
            '\r' => out.push_str("\\r"),
            '\t' => out.push_str("\\t"),
            c if (c as u32) < 0x20 => out.push_str(&format!("\\u{:04x}", c as u32)),
            c => out.push(c),
        }
    }
    out.push('"');
}

impl From<&str> for J {
    fn from(s: &str) -> J {
        J::Str(s.to_string())
    }
}
impl From<String> for J {
    fn from(s: String) -> J {
        J::Str(s)
    }
}
impl From<bool> for J {
    fn from(b: bool) -> J {
        J::Bool(b)
    }
}
impl From<u64> for J {
    fn from(v: u64) -> J {
        J::Int(v as i128)
    }
}
impl From<i64> for J {
    fn from(v: i64) -> J {
        J::Int(v as i128)
    }
}
impl From<usize> for J {
    fn from(v: usize) -> J {
        J::Int(v as i128)
    }
}
impl From<u32> for J {
    fn from(v: u32) -> J {
        J::Int(v as i128)
    }
}
impl From<i32> for J {
    fn from(v: i32) -> J {
        J::Int(v as i128)
    }
}
impl From<f64> for J {
    fn from(v: f64) -> J {
        J::Num(v)
    }
}
impl From<Vec<J>> for J {
    fn from(v: Vec<J>) -> J {
        J::Arr(v)
    }
}
impl From<Vec<String>> for J {
    fn from(v: Vec<String>) -> J {
        J::Arr(v.into_iter().map(J::Str).collect())
    }
}
impl From<&BTreeMap<String, u64>> for J {
    fn from(m: &BTreeMap<String, u64>) -> J {
        J::Obj(m.iter().map(|(k, v)| (k.clone(), J::Int(*v as i128))).collect())
    }
}

// ---------------------------------------------------------------- parser

pub fn parse(s: &str) -> Result<J, String> {
    let b = s.as_bytes();
    let mut p = 0;
    let v = parse_val(b, &mut p)?;
    skip_ws(b, &mut p);
    if p != b.len() {
        return Err(format!("trailing data at {}", p));
    }
    Ok(v)
}

fn skip_ws(b: &[u8], p: &mut usize) {
    while *p < b.len() && (b[*p] as char).is_ascii_whitespace() {
        *p += 1;
    }
}

fn parse_val(b: &[u8], p: &mut usize) -> Result<J, String> {
    skip_ws(b, p);
    if *p >= b.len() {
        return Err("eof".into());
    }
    match b[*p] {
        b'{' => {
            *p += 1;
            let mut m = BTreeMap::new();
            skip_ws(b, p);
            if b.get(*p) == Some(&b'}') {
                *p += 1;
                return Ok(J::Obj(m));
            }
            loop {
                skip_ws(b, p);
                let k = match parse_val(b, p)? {
                    J::Str(s) => s,
                    _ => return Err("key".into()),
                };
                skip_ws(b, p);
                if b.get(*p) != Some(&b':') {
                    return Err(format!("expected : at {}", p));
                }
                *p += 1;
                let v = parse_val(b, p)?;
                m.insert(k, v);
                skip_ws(b, p);
                match b.get(*p) {
                    Some(b',') => *p += 1,
                    Some(b'}') => {
                        *p += 1;
                        return Ok(J::Obj(m));
                    }
                    _ => return Err(format!("expected , or }} at {}", p)),
                }
            }
        }
        b'[' => {
            *p += 1;
            let mut a = Vec::new();
            skip_ws(b, p);
            if b.get(*p) == Some(&b']') {
                *p += 1;
                return Ok(J::Arr(a));
            }
            loop {
                a.push(parse_val(b, p)?);
                skip_ws(b, p);
                match b.get(*p) {
                    Some(b',') => *p += 1,
                    Some(b']') => {
                        *p += 1;
                        return Ok(J::Arr(a));
                    }
                    _ => return Err(format!("expected , or ] at {}", p)),
                }
            }
        }
        b'"' => {
            *p += 1;
            let mut s = Vec::new();
            while *p < b.len() && b[*p] != b'"' {
                if b[*p] == b'\\' {
                    *p += 1;
                    match b.get(*p) {
                        Some(b'n') => s.push(b'\n'),
                        Some(b'r') => s.push(b'\r'),
                        Some(b't') => s.push(b'\t'),
                        Some(b'u') => {
                            let h = std::str::from_utf8(&b[*p + 1..*p + 5]).map_err(|e| e.to_string())?;
                            let c = u32::from_str_radix(h, 16).map_err(|e| e.to_string())?;
                            let ch = char::from_u32(c).unwrap_or('?');
                            let mut buf = [0u8; 4];
                            s.extend_from_slice(ch.encode_utf8(&mut buf).as_bytes());
                            *p += 4;
                        }
                        Some(c) => s.push(*c),
                        None => return Err("eof in string".into()),
                    }
                } else {
                    s.push(b[*p]);
                }
                *p += 1;
            }
            *p += 1;
            Ok(J::Str(String::from_utf8_lossy(&s).to_string()))
        }
        b't' => {
            *p += 4;
            Ok(J::Bool(true))
        }
        b'f' => {
            *p += 5;
            Ok(J::Bool(false))
        }
        b'n' => {
            *p += 4;
            Ok(J::Null)
        }
        _ => {
            let start = *p;
            while *p < b.len() && (b[*p] == b'-' || b[*p] == b'+' || b[*p] == b'.' || b[*p] == b'e' || b[*p] == b'E' || b[*p].is_ascii_digit()) {
                *p += 1;
            }
            let t = std::str::from_utf8(&b[start..*p]).map_err(|e| e.to_string())?;
            if let Ok(i) = t.parse::<i128>() {
                Ok(J::Int(i))
            } else {
                t.parse::<f64>().map(J::Num).map_err(|e| format!("{}: {:?}", e, t))
            }
        }
    }
}
