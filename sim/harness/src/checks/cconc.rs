//! C01, C04, C05, C06: checks over concurrent runs.

use crate::common::*;
use crate::conc::*;
use crate::json::J;
use crate::runner::*;
use kismet_vfs::kernel::{DrawPolicy, Tape, K};

fn base_out(run: &ConcRun) -> RunOut {
    let mut out = RunOut::default();
    out.sig = run.sig;
    out.steps = run.steps;
    out.sim_ns = run.sim_ns;
    out.count("context_switches", run.switches);
    out.count("operations", run.results.len() as u64);
    for (k, n) in run.faults.iter() {
        out.count(k, *n);
    }
    if run.adversary_unlinks > 0 {
        out.count("fault:external_unlink", run.adversary_unlinks);
    }
    out
}

fn sample(run: &ConcRun) -> J {
    J::obj().set("scenario", run.desc.clone()).set("results", run.results.iter().map(|r| r.short()).collect::<Vec<_>>()).set("schedule", run.trace.iter().take(150).map(|r| format!("P{} {:?}", r.part, r.kind)).collect::<Vec<_>>().join(" "))
}

fn harness_abort(run: &ConcRun) -> Option<Violation> {
    if run.blocked {
        return Some(Violation::new("blocked", "a participant stopped making progress outside any filesystem call (watchdog)".to_string()));
    }
    if let Some(a) = &run.aborted {
        return Some(Violation::new(a, format!("run aborted: {}", a)));
    }
    None
}

/// did a lookup overlap a publication of the same key by another participant?
fn overlap(run: &ConcRun) -> bool {
    for a in run.results.iter() {
        if !matches!(a.op, Op::Get | Op::GetNoRead | Op::Ensure { .. } | Op::GetOrUpdate { .. }) {
            continue;
        }
        for b in run.results.iter() {
            if a.part != b.part && a.key == b.key && b.op.tag().is_some() && b.inv < a.ret && a.inv < b.ret {
                return true;
            }
        }
    }
    false
}

// ----------------------------------------------------------------------
pub struct C01;

impl Check for C01 {
    fn id(&self) -> &'static str {
        "C01"
    }
    fn rule(&self) -> String {
        "2-3 participants (own handles = separate processes, or clones of one handle) each run 1-4 operations from {set, put, set_temp_file, put_temp_file, ensure, get_or_update x {Accept, Promote, Replace}, get, touch} over 1-3 keys on the same directories: plain, sharded, or stacked over either with an optional read-only level that another participant writes into through its own raw handle (so promotion races with the upstream writer); capacities {0,1,2,huge} with maintenance firing always/sometimes/never; multi-chunk values and short reads/writes so that populate/copy/read take several calls; in a third of the runs every library call additionally fails with probability 1-5 % with an errno plausible for its kind (operations may then fail, but may never return or publish wrong data); every filesystem call is a scheduling point decided by the seeded scheduler (stay-probabilities 95/85/60/30 %, optional hold-one-participant-until-the-others-finish). Oracle: every handle returned by a lookup, read to the end by the participant, is exactly one complete value supplied for that key (self-describing values); and at every step no key-named file is created in place, empty, partial or foreign (I-content on every rename/link/create). Non-trivial = a lookup overlapped a publication of the same key by another participant; distinct = hash of (configuration, sequence of (participant, call kind) on the shared directories)".to_string()
    }
    fn runs(&self, tier: Tier) -> u64 {
        match tier {
            Tier::Quick => 30_000,
            Tier::Thorough => 1_500_000,
        }
    }
    fn run(&self, tape: &mut Tape, ctx: &RunCtx) -> RunOut {
        let cfg = ConcCfg {
            fronts: vec![0, 1, 2, 2],
            capacities: vec![1_000_000, 0, 1, 2, 3],
            max_parts: 3,
            max_ops: 4,
            max_keys: 3,
            ops: vec!["get", "get", "set", "put", "ensure", "gou", "touch"],
            adversary: false,
            stale_mode: false,
            freeze: false,
            crash: false,
            fire: vec![DrawPolicy::Const(1), DrawPolicy::FireMix(300), DrawPolicy::Const(u64::MAX)],
            allow_shared_handle: true,
            missing_dirs: true,
            preexisting: true,
            clock_small: true,
            sampled_faults: true,
            clock_jump: false,
            debris: true,
            focus: 4,
        };
        let run = run_conc(tape, &cfg, ctx.detail);
        let mut out = base_out(&run);
        let mut v: Option<Violation> = harness_abort(&run).filter(|v| v.class == "blocked" || v.class == "runaway");
        if v.is_some() {
            // a blocked/runaway run is C06's business; do not judge content
            v = None;
            out.count("aborted_runs", 1);
        }
        for r in run.results.iter() {
            if let Ok(Out::Hit { data, .. }) = &r.out {
                if matches!(r.op, Op::GetNoRead) {
                    continue;
                }
                let ok = parse_value(data).map(|(k, _)| k == run.keys[r.key].name).unwrap_or(false);
                if !ok && v.is_none() {
                    v = Some(Violation::new("read-content", format!("a lookup of {} returned {}: {}", run.keys[r.key].name, describe_bytes(data), r.short())).attr("op", r.op.name()));
                }
            }
        }
        {
            let inv = run.w.inv.lock().unwrap();
            if let Some((_, m)) = inv.violations.iter().find(|(n, _)| *n == "content") {
                if v.is_none() {
                    v = Some(Violation::new("content", m.clone()));
                }
            }
            // a descriptor number closed twice is, in a process with other
            // threads, somebody else's file: the reader then reads foreign
            // content (or nothing) from a handle it obtained correctly
            if let Some((_, m)) = inv.violations.iter().find(|(n, _)| *n == "double-close") {
                if v.is_none() {
                    v = Some(Violation::new("double-close", m.clone()));
                }
            }
        }
        out.nontrivial = overlap(&run);
        if let Some(mut v) = v {
            v.detail = describe(&run, 150);
            out.violation = Some(v);
        }
        if ctx.detail {
            out.sample = Some(sample(&run));
        }
        out
    }
    fn assumptions(&self) -> Vec<String> {
        vec!["scheduling points are filesystem calls; pure computation between two calls of one participant is atomic".into(), "temp-file names are drawn from the full 62^6 space as tempfile does, so two participants never pick the same name".into()]
    }
}

// ----------------------------------------------------------------------
pub struct C05;

impl Check for C05 {
    fn id(&self) -> &'static str {
        "C05"
    }
    fn rule(&self) -> String {
        "2-3 participants run set/put/ensure/get_or_update/get/touch with capacity 0-2 (every write maintains; sharded writes also maintain a random other shard) on plain, sharded (shard directories missing at the start, so create_dir_all races with itself) and stacked caches (read-only level written by another participant), plus an adversary participant that unlinks published files (never temp files) at scheduler-chosen steps; half of the runs use stale-handle mode (ESTALE may replace ENOENT for a name a peer removed within the last 60 steps); no injected faults; simulated time stays far below the temp-file age limit; stale crash debris (older than the limit) is planted in half of the runs for concurrent maintainers to reclaim; every other run hammers ONE key with puts/sets while the adversary deletes it 3-8 times, with the scheduler preempting at 90 % of the link/rename/unlink/utimens calls. Oracle: every operation returns Ok (lookups Ok(Some|None) with valid content, touch Ok(bool), writes Ok(())) and none panics. Non-trivial = some participant's call observed ENOENT/ESTALE/EEXIST caused by a peer (a race actually happened); distinct = hash of configuration and schedule".to_string()
    }
    fn runs(&self, tier: Tier) -> u64 {
        match tier {
            Tier::Quick => 60_000,
            Tier::Thorough => 1_500_000,
        }
    }
    fn run(&self, tape: &mut Tape, ctx: &RunCtx) -> RunOut {
        let cfg = ConcCfg {
            fronts: vec![0, 1, 1, 2],
            capacities: vec![0, 1, 2],
            max_parts: 3,
            max_ops: 4,
            max_keys: 3,
            ops: vec!["get", "set", "put", "put", "ensure", "gou", "touch"],
            adversary: true,
            stale_mode: true,
            freeze: false,
            crash: false,
            fire: vec![DrawPolicy::Const(1)],
            allow_shared_handle: true,
            missing_dirs: true,
            preexisting: true,
            clock_small: true,
            sampled_faults: false,
            clock_jump: false,
            debris: true,
            focus: 2,
        };
        let run = run_conc(tape, &cfg, ctx.detail);
        let mut out = base_out(&run);
        let mut v: Option<Violation> = None;
        if harness_abort(&run).is_some() {
            out.count("aborted_runs", 1);
        }
        for r in run.results.iter() {
            if v.is_some() {
                break;
            }
            if let Some(p) = &r.panic {
                v = Some(Violation::new("panic", format!("operation panicked under concurrency: {} ({})", r.short(), p)).attr("op", r.op.name()));
            } else if let Err(e) = &r.out {
                v = Some(Violation::new("error", format!("operation failed merely because of concurrent activity: {}", r.short())).attr("op", r.op.name()).attr("errno", format!("{:?}", e.os)));
            }
        }
        // "maintenance skips what has vanished" -- and nothing else: after an
        // entry vanished under it, a pass must keep addressing the entries of
        // the directory it listed
        if v.is_none() {
            if let Some((n, m)) = run.w.inv.lock().unwrap().violations.iter().find(|(n, _)| *n == "maintenance-path") {
                v = Some(Violation::new(n, m.clone()));
            }
        }
        // probes: races that actually happened
        let mut raced = false;
        for r in run.trace.iter() {
            if r.err == libc::ESTALE {
                out.count("probe:estale_seen", 1);
                raced = true;
            }
            if r.err == libc::ENOENT && matches!(r.kind, K::FstatAt) {
                out.count("probe:entry_vanished_before_stat", 1);
                raced = true;
            }
            if r.err == libc::ENOENT && matches!(r.kind, K::Utimens) {
                out.count("probe:vanished_before_utimens", 1);
                raced = true;
            }
            if r.err == libc::ENOENT && matches!(r.kind, K::Unlink) && !r.path.contains(".kismet_temp") && r.lib {
                out.count("probe:vanished_before_unlink", 1);
                raced = true;
            }
            if r.err == libc::EEXIST && matches!(r.kind, K::Link) {
                out.count("probe:link_eexist", 1);
                raced = true;
            }
            if r.err == libc::EEXIST && matches!(r.kind, K::Mkdir) {
                out.count("probe:mkdir_race", 1);
            }
        }
        out.nontrivial = raced;
        if let Some(mut v) = v {
            v.detail = describe(&run, 200);
            out.violation = Some(v);
        }
        if ctx.detail {
            out.sample = Some(sample(&run));
        }
        out
    }
    fn assumptions(&self) -> Vec<String> {
        vec!["the adversary deletes published cache files only; deleting a peer's private temp file or a directory is outside the statement".into(), "simulated time stays below the one-hour temp-file age limit, so a peer's temp file is never reclaimed while its owner is alive".into()]
    }
}

// ----------------------------------------------------------------------
pub struct C06;

impl Check for C06 {
    fn id(&self) -> &'static str {
        "C06"
    }
    fn rule(&self) -> String {
        "the C01/C05 generator (own and shared handles, capacities 0..huge, plain/sharded/stacked; one operation in seven is a set/put whose source path names no file, which must fail within the bound) is run to a drawn prefix length (1-120 filesystem steps); from that state one participant is scheduled ALONE until its current operation returns while every other participant stays frozen forever at the call it had announced (variant: the others are killed). Oracle: the survivor's operation returns Ok with valid content within a bound on its own filesystem steps (500 + 40 x directory entries + 40 x value chunks: generous constants, the statement fixes only the shape), the run is neither blocked (watchdog: no progress outside a filesystem call for 10 s) nor a runaway (60 000 steps), and no lock primitive (flock/lockf/fcntl/File::lock*) is ever called. Non-trivial = at least one peer was frozen in the middle of an operation; distinct = (survivor's operation, the frozen peers' pending call kinds, configuration)".to_string()
    }
    fn runs(&self, tier: Tier) -> u64 {
        match tier {
            Tier::Quick => 80_000,
            Tier::Thorough => 1_000_000,
        }
    }
    fn run(&self, tape: &mut Tape, ctx: &RunCtx) -> RunOut {
        let kill = tape.draw(4) == 3;
        let cfg = ConcCfg {
            fronts: vec![0, 1, 2, 2],
            capacities: vec![0, 1, 2, 1_000_000],
            max_parts: 3,
            max_ops: 3,
            max_keys: 2,
            ops: vec!["get", "set", "put", "ensure", "gou", "touch", "get", "set", "put", "ensure", "gou", "touch", "set_missing", "put_missing"],
            adversary: false,
            stale_mode: false,
            freeze: !kill,
            crash: kill,
            fire: vec![DrawPolicy::Const(1), DrawPolicy::FireMix(300), DrawPolicy::Const(u64::MAX)],
            allow_shared_handle: true,
            missing_dirs: true,
            preexisting: true,
            clock_small: true,
            sampled_faults: false,
            clock_jump: false,
            debris: true,
            focus: 4,
        };
        let run = run_conc(tape, &cfg, ctx.detail);
        let mut out = base_out(&run);
        let mut v: Option<Violation> = harness_abort(&run);
        let locks = run.w.inv.lock().unwrap().locks;
        if locks > 0 && v.is_none() {
            v = Some(Violation::new("lock", format!("{} lock primitive calls", locks)));
        }
        let mut frozen_mid_op = false;
        if let Some((at, surv)) = run.frozen_at {
            // which participants were frozen in the middle of an operation?
            let mut pending = Vec::new();
            for p in 0..run.programs.len() {
                if p == surv {
                    continue;
                }
                let done = run.results.iter().filter(|r| r.part == p as i32 && !r.crashed).count();
                let last_before: Vec<_> = run.trace.iter().filter(|r| r.part == p as i32 && r.step <= at).collect();
                if done < run.programs[p].len() && !last_before.is_empty() {
                    frozen_mid_op = true;
                    pending.push(format!("{:?}", last_before.last().unwrap().kind));
                }
            }
            out.sig = mix(out.sig, hash_str(&pending.join(",")));
            // the survivor's operations
            let entries: usize = run.w.with_fs(|fs| run.w.dirs.iter().map(|d| fs.tree(&d.path).len()).sum());
            let max_len = run.results.iter().filter_map(|r| match &r.op { Op::Set { plen, .. } | Op::Put { plen, .. } | Op::SetTemp { plen, .. } | Op::PutTemp { plen, .. } | Op::Ensure { plen, .. } | Op::GetOrUpdate { plen, .. } => Some(*plen), _ => None }).filter(|l| *l != MISSING_SOURCE).max().unwrap_or(0);
            let chunks = max_len / run.w.chunk.min(8192) + 2;
            // generous constants: the statement fixes the shape (constant, or linear
            // in the directory entries plus the value's chunks), not the factors
            let bound = 500 + 40 * entries as u64 + 40 * chunks as u64;
            for r in run.results.iter().filter(|r| r.part == surv as i32 && r.ret > at) {
                if v.is_some() {
                    break;
                }
                if r.crashed {
                    continue;
                }
                if let Some(p) = &r.panic {
                    v = Some(Violation::new("solo-panic", format!("running alone with its peers frozen, the operation panicked: {} ({})", r.short(), p)));
                } else if r.out.is_err() && matches!(&r.op, Op::Set { plen, .. } | Op::Put { plen, .. } if *plen == MISSING_SOURCE) {
                    // expected: the source names no file (bounded failure)
                } else if r.out.is_err() {
                    v = Some(Violation::new("solo-error", format!("running alone with its peers frozen, the operation failed: {}", r.short())));
                } else if let Ok(Out::Hit { data, .. }) = &r.out {
                    if parse_value(data).map(|(k, _)| k != run.keys[r.key].name).unwrap_or(true) {
                        v = Some(Violation::new("solo-content", format!("running alone, the lookup returned {}", describe_bytes(data))));
                    }
                }
                let own_steps = run.trace.iter().filter(|t| t.part == surv as i32 && t.step > r.inv.max(at) && t.step <= r.ret).count() as u64;
                if own_steps > bound && v.is_none() {
                    v = Some(Violation::new("step-bound", format!("running alone, {} took {} of its own filesystem steps (bound {} for {} directory entries)", r.short(), own_steps, bound, entries)));
                }
            }
            // the survivor must have finished the operation it was in
            let surv_done = run.results.iter().filter(|r| r.part == surv as i32).count();
            if surv_done == 0 && v.is_none() && !run.programs[surv].is_empty() && run.aborted.is_none() && !run.blocked {
                v = Some(Violation::new("solo-stuck", "the survivor never completed an operation".to_string()));
            }
        }
        if let Some(cp) = run.crashed_proc {
            // peers were killed: everyone else must still complete with Ok
            for r in run.results.iter().filter(|r| r.proc != cp) {
                if v.is_some() {
                    break;
                }
                if r.out.is_err() && r.panic.is_none() && matches!(&r.op, Op::Set { plen, .. } | Op::Put { plen, .. } if *plen == MISSING_SOURCE) {
                    continue;
                }
                if r.panic.is_some() || r.out.is_err() {
                    v = Some(Violation::new("peer-death", format!("a peer was killed and the operation failed: {}", r.short())));
                }
            }
            frozen_mid_op = run.results.iter().any(|r| r.crashed);
            out.count("fault:process_crash", frozen_mid_op as u64);
        }
        out.nontrivial = frozen_mid_op;
        if frozen_mid_op {
            out.count("probe:peer_stopped_mid_operation", 1);
        }
        if let Some(mut v) = v {
            v.detail = describe(&run, 200);
            out.violation = Some(v);
        }
        if ctx.detail {
            out.sample = Some(sample(&run));
        }
        out
    }
    fn assumptions(&self) -> Vec<String> {
        vec!["participants are frozen at filesystem-call boundaries (the call they announced is not performed)".into(), "an in-process wait (mutex, spin loop without filesystem calls) on a frozen peer shows up through the 10 s watchdog".into()]
    }
}

// ----------------------------------------------------------------------
// C04: linearizability of plain-cache operations per key

pub struct C04;

#[derive(Clone, Debug)]
enum LOp {
    Set(u32),
    Put(u32),
    Get(Option<u32>),
    Touch(bool),
    /// ensure(v) returned r
    Ensure(u32, u32),
}

#[derive(Clone, Debug)]
struct HOp {
    inv: u64,
    ret: u64,
    op: LOp,
    desc: String,
}

/// Wing-Gong style search.  `phase[i]`: 0 not started, for ensure 1 = after
/// its first (missing) lookup, 2 = after its put; usize::MAX = done.
fn linearizable(ops: &[HOp], state: Option<u32>, phase: &mut Vec<usize>, memo: &mut std::collections::HashSet<(Vec<usize>, Option<u32>)>) -> bool {
    if phase.iter().all(|p| *p == usize::MAX) {
        return true;
    }
    if !memo.insert((phase.clone(), state)) {
        return false;
    }
    // an op may act now only if no unfinished op returned before it was invoked
    let min_ret = ops.iter().enumerate().filter(|(i, _)| phase[*i] != usize::MAX).map(|(_, o)| o.ret).min().unwrap();
    for i in 0..ops.len() {
        if phase[i] == usize::MAX || ops[i].inv >= min_ret && ops[i].ret != min_ret {
            continue;
        }
        let old = phase[i];
        let mut tryit = |new_state: Option<u32>, new_phase: usize, phase: &mut Vec<usize>| -> bool {
            phase[i] = new_phase;
            let ok = linearizable(ops, new_state, phase, memo);
            phase[i] = old;
            ok
        };
        match &ops[i].op {
            LOp::Set(v) => {
                if tryit(Some(*v), usize::MAX, phase) {
                    return true;
                }
            }
            LOp::Put(v) => {
                if tryit(state.or(Some(*v)), usize::MAX, phase) {
                    return true;
                }
            }
            LOp::Get(r) => {
                if *r == state && tryit(state, usize::MAX, phase) {
                    return true;
                }
            }
            LOp::Touch(b) => {
                if *b == state.is_some() && tryit(state, usize::MAX, phase) {
                    return true;
                }
            }
            LOp::Ensure(v, r) => match old {
                0 => {
                    if state == Some(*r) && tryit(state, usize::MAX, phase) {
                        return true;
                    }
                    if state.is_none() && tryit(state, 1, phase) {
                        return true;
                    }
                }
                1 => {
                    if tryit(state.or(Some(*v)), 2, phase) {
                        return true;
                    }
                }
                _ => {
                    if (state == Some(*r) || (state.is_none() && r == v)) && tryit(state, usize::MAX, phase) {
                        return true;
                    }
                }
            },
        }
    }
    false
}

impl Check for C04 {
    fn id(&self) -> &'static str {
        "C04"
    }
    fn rule(&self) -> String {
        "one plain cache directory (raw plain::Cache or Cache over a plain writer), eviction out of play (huge capacity, trigger scripted never to fire), 2-3 participants with own or shared handles, 1-3 operations each from {set(v), put(v), get, touch, ensure(v)} on one key (a second key in some runs), optional pre-existing value, unique value per write; in a third of the runs maintenance fires on every write (cleaning the temporary directory, never evicting) and in a third everybody stalls once for two hours, so that a writer's staged file can be reclaimed under its feet (such a write fails, which is documented; what it must not do is report success without effect). Each operation records invoke/return stamps from the simulator's global step counter (total order, no ties). Oracle: an exact Wing-Gong search for a linearization against the sequential register (set: state:=v; put: state:=v if absent; get returns state; touch returns presence); ensure is NOT assumed atomic: it is the program-ordered atoms get; if miss {put(v); get} sharing the call's interval. Histories have <= 9 operations, so the search is exact. Non-trivial = at least two operations on the same key overlapped in time and one of them was a write; distinct = hash of (operation multiset, result vector, real-time order)".to_string()
    }
    fn runs(&self, tier: Tier) -> u64 {
        match tier {
            Tier::Quick => 40_000,
            Tier::Thorough => 2_000_000,
        }
    }
    fn run(&self, tape: &mut Tape, ctx: &RunCtx) -> RunOut {
        let cfg = ConcCfg {
            fronts: vec![0, 2],
            capacities: vec![100_000_000],
            max_parts: 3,
            max_ops: 3,
            max_keys: if tape.draw(5) == 4 { 2 } else { 1 },
            ops: vec!["get", "set", "put", "ensure", "touch", "get", "put"],
            adversary: false,
            stale_mode: false,
            freeze: false,
            crash: false,
            // maintenance may run (it cleans the temporary directory) but never
            // evicts: the capacity is out of reach
            fire: vec![DrawPolicy::Const(u64::MAX), DrawPolicy::Const(u64::MAX), DrawPolicy::Const(1)],
            allow_shared_handle: true,
            missing_dirs: true,
            preexisting: true,
            clock_small: true,
            sampled_faults: false,
            clock_jump: true,
            debris: true,
            focus: 4,
        };
        // C04 is about the plain cache: force plain writer and no reader by
        // re-drawing until the configuration qualifies is not replay-friendly;
        // instead run_conc is given fronts {plain, stack} and we skip runs
        // whose stack has a sharded writer or a read-only level.
        let run = run_conc(tape, &cfg, ctx.detail);
        let mut out = base_out(&run);
        let plain_only = run.w.dirs.len() == 1 && run.w.dirs[0].kind == DirKind::Plain;
        if !plain_only {
            out.count("skipped_not_plain", 1);
            return out;
        }
        if harness_abort(&run).is_some() {
            out.count("aborted_runs", 1);
            return out;
        }
        let mut v: Option<Violation> = None;
        let mut overlapped = false;
        for (ki, key) in run.keys.iter().enumerate() {
            let mut hops: Vec<HOp> = Vec::new();
            let mut bad = false;
            for r in run.results.iter().filter(|r| r.key == ki) {
                let lop = match (&r.op, &r.out) {
                    (Op::Set { tag, .. } | Op::SetTemp { tag, .. }, Ok(_)) => LOp::Set(*tag),
                    (Op::Put { tag, .. } | Op::PutTemp { tag, .. }, Ok(_)) => LOp::Put(*tag),
                    (Op::Get, Ok(Out::Miss)) => LOp::Get(None),
                    (Op::Get, Ok(Out::Hit { data, .. })) => match parse_value(data) {
                        Some((k, t)) if k == key.name => LOp::Get(Some(t)),
                        _ => {
                            bad = true;
                            break;
                        }
                    },
                    (Op::Touch, Ok(Out::Bool(b))) => LOp::Touch(*b),
                    (Op::Ensure { tag, .. }, Ok(Out::Hit { data, .. })) => match parse_value(data) {
                        Some((k, t)) if k == key.name => LOp::Ensure(*tag, t),
                        _ => {
                            bad = true;
                            break;
                        }
                    },
                    _ => {
                        // errors and panics are C05's business
                        bad = true;
                        break;
                    }
                };
                hops.push(HOp { inv: r.inv, ret: r.ret, op: lop, desc: r.short() });
            }
            if bad {
                out.count("skipped_error_in_history", 1);
                continue;
            }
            for a in hops.iter() {
                for b in hops.iter() {
                    if a.inv < b.ret && b.inv < a.ret && a.desc != b.desc && matches!(a.op, LOp::Set(_) | LOp::Put(_) | LOp::Ensure(..)) {
                        overlapped = true;
                    }
                }
            }
            let mut phase = vec![0usize; hops.len()];
            let mut memo = std::collections::HashSet::new();
            if !linearizable(&hops, run.initial[ki], &mut phase, &mut memo) && v.is_none() {
                v = Some(Violation::new("linearizability", format!("no linearization exists for the history on {} (initial value {:?}): {:?}", key.name, run.initial[ki], hops.iter().map(|h| format!("[{}..{}] {:?}", h.inv, h.ret, h.op)).collect::<Vec<_>>())));
            }
            out.sig = mix(out.sig, hash_str(&format!("{:?}", hops.iter().map(|h| format!("{:?}", h.op)).collect::<Vec<_>>())));
            // corollary: concurrent ensures of a missing key agree
            let only_benign = hops.iter().all(|h| !matches!(h.op, LOp::Set(_)));
            if only_benign && run.initial[ki].is_none() {
                let vals: Vec<u32> = hops.iter().filter_map(|h| if let LOp::Ensure(_, r) = h.op { Some(r) } else { None }).collect();
                if vals.windows(2).any(|w| w[0] != w[1]) && v.is_none() {
                    v = Some(Violation::new("ensure-disagree", format!("concurrent ensure calls for a missing key returned different values: {:?}", vals)));
                }
            }
        }
        out.nontrivial = overlapped;
        if let Some(mut v) = v {
            v.detail = describe(&run, 200);
            out.violation = Some(v);
        }
        if ctx.detail {
            out.sample = Some(sample(&run));
        }
        out
    }
    fn assumptions(&self) -> Vec<String> {
        vec!["invoke/return stamps come from the global step counter; an operation's effects all lie strictly between its stamps".into(), "ensure is modelled as its documented non-atomic composition; get_or_update with Replace is not part of this statement".into()]
    }
}
