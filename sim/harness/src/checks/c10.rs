//! C10 — cache growth between maintenance runs is bounded.

use crate::common::*;
use crate::json::J;
use crate::runner::*;
use crate::world::*;
use kismet_vfs::kernel::{DrawPolicy, Tape, K};

pub struct C10;

fn ref_scale(period: u64) -> u64 {
    let p = period.max(1) as u128;
    let m = u64::MAX as u128;
    ((m + p - 1) / p) as u64
}

impl Check for C10 {
    fn id(&self) -> &'static str {
        "C10"
    }
    fn rule(&self) -> String {
        "one fresh thread writes 20-600 times (set/put/set_temp_file/put_temp_file, fresh and repeated keys) to one plain cache of capacity k in 0..200 or {2^16, 2^32, usize::MAX/3, usize::MAX-1, usize::MAX}, through plain::Cache or Cache with a plain writer; the trigger's random source is scripted with adversarial draws (1, 2, scale-1, scale, scale+1, m*scale-1, m*scale, m*scale+1, 2^63, u64::MAX-1, u64::MAX, occasional 0, uniform), scale recomputed independently. Oracle from the call trace: a write maintains iff it lists the cache directory before its own rename/link; every window of p=max(1,k/3) consecutive writes contains a maintaining write, p=1 => every write maintains, file count <= k+p after every write, no panic/overflow, and for huge capacities, when every draw is 1 or 2, every write maintains. Non-trivial = at least one non-maintaining write was followed by a maintaining one (or k is huge); distinct = hash of (k, front-end, draw classes, write sequence)".to_string()
    }
    fn runs(&self, tier: Tier) -> u64 {
        match tier {
            Tier::Quick => 30_000,
            Tier::Thorough => 1_500_000,
        }
    }
    fn run(&self, tape: &mut Tape, ctx: &RunCtx) -> RunOut {
        let mut out = RunOut::default();
        let kn = draw_knobs(tape);
        let huge = tape.draw(6) == 5;
        let k: usize = if huge { *tape.pick(&[1usize << 16, 1 << 32, usize::MAX / 3, usize::MAX - 1, usize::MAX, usize::MAX / 2 + 1]) } else { tape.draw(201) as usize };
        let p = std::cmp::max(1, k / 3);
        let scale = ref_scale((k / 3) as u64);
        let via_stack = tape.draw(2) == 1;
        let long = tape.draw(4) == 0;
        let nwrites = if huge { 10 + tape.draw(15) as usize } else { 20 + tape.draw(if long { 580 } else { 120 }) as usize };
        // adversarial script
        // 'a small draw must still fire immediately' is stated for huge capacities
        let all_small = huge && tape.draw(3) == 2;
        let mut script = Vec::new();
        let mut classes = 0u64;
        for _ in 0..(nwrites + 8) {
            let c = if all_small { tape.draw(2) } else { tape.draw(14) };
            classes |= 1 << c;
            let m = 1 + tape.draw(7);
            let v: u64 = match c {
                0 => 1,
                1 => 2.min(scale),
                2 => scale,
                3 => scale.saturating_sub(1).max(1),
                4 => scale.saturating_add(1),
                5 => scale.saturating_mul(m).saturating_sub(1).max(1),
                6 => scale.saturating_mul(m),
                7 => scale.saturating_mul(m).saturating_add(1),
                8 => 1 << 63,
                9 => u64::MAX - 1,
                10 => u64::MAX,
                11 => 0,
                _ => tape.draw_u64(),
            };
            script.push(v);
        }
        let all_small = all_small && script.iter().all(|v| *v <= scale);
        let mut fs = new_fs(&kn);
        let root = "/sim/c0".to_string();
        fs.mkdir_all(&root);
        let nplant = if huge { tape.draw(10) as usize } else { tape.draw(k.min(30) as u64 + 1) as usize };
        for i in 0..nplant {
            let name = format!("old{}", i);
            let m = fs.now - 1_000_000_000_000 - i as i64 * 1_000_000_000;
            fs.plant_file(&format!("{}/{}", root, name), &make_value(&name, 0, 3), 0o444, m - 120_000_000_000, m);
        }
        let dirs = vec![DirSpec { path: root.clone(), kind: DirKind::Plain, capacity: k }];
        let mut w = World::new(fs, &kn, tape, 1, 1, dirs, WorldCfg::default());
        w.script_trigger(0, script.clone(), DrawPolicy::Const(u64::MAX));
        let h = if via_stack { w.build(&HandleSpec::Stack { writer: Some(0), readers: vec![], auto_sync: w.draw(2) == 0, checker: CheckerKind::None }) } else { w.build(&HandleSpec::Plain(0)) };
        let mut maintained: Vec<bool> = Vec::new();
        let mut sig = hash_str(&format!("{}|{}|{}|{}", k, via_stack, classes, nplant));
        let mut ops = Vec::new();
        for i in 0..nwrites {
            let repeat = w.draw(3) == 0;
            let name = if repeat { format!("r{}", w.draw(4)) } else { format!("w{}", i) };
            let key = KeySpec { name, hash: 1, sec: 2 };
            let tag = i as u32 + 1;
            let op = match w.draw(if via_stack { 4 } else { 2 }) {
                0 => Op::Set { tag, plen: 0 },
                1 => Op::Put { tag, plen: 0 },
                2 => Op::SetTemp { tag, plen: 0 },
                _ => Op::PutTemp { tag, plen: 0 },
            };
            sig = mix(sig, hash_str(op.name()) ^ repeat as u64);
            let mark = w.trace_len();
            let res = w.op(0, 0, &h, 0, &key, &op);
            if ctx.detail && ops.len() < 30 {
                ops.push(res.short());
            }
            if res.out.is_err() || res.panic.is_some() {
                out.violation = Some(Violation::new("write-failed", format!("write {} failed or panicked (k={}): {}", i, k, res.short())));
                break;
            }
            let tr = w.trace_from(mark);
            let pub_at = tr.iter().position(|r| matches!(r.kind, K::Rename | K::Link) && r.path2.starts_with(&format!("{}/", root)) && !r.path2.contains("/.kismet_temp/"));
            let list_at = tr.iter().position(|r| r.kind == K::Opendir && r.path == root);
            let m = match (list_at, pub_at) {
                (Some(l), Some(p)) => l < p,
                (Some(_), None) => true,
                _ => false,
            };
            if list_at.is_some() && !m {
                out.violation = Some(Violation::new("maintenance-after-insert", format!("write {} listed the cache directory only after its own insertion", i)));
                break;
            }
            maintained.push(m);
            // window bound
            let n = maintained.len();
            let last = maintained.iter().rposition(|x| *x);
            let gap = match last {
                Some(l) => n - 1 - l,
                None => n,
            };
            if gap >= p {
                out.violation = Some(Violation::new("window", format!("k={} p={}: {} consecutive writes without maintenance (writes {}..={}); scripted draws {:?}", k, p, gap, n - gap, n - 1, &script[..script.len().min(12)])).attr("k", k.to_string()));
                break;
            }
            if all_small && !m {
                out.violation = Some(Violation::new("small-draw", format!("k={} scale={}: every draw is <= scale yet write {} did not maintain", k, scale, i)));
                break;
            }
            // size bound
            let count = w.with_fs(|fs| dir_entries(fs, &root, true).len());
            if (count as u128) > (k as u128) + (p as u128) {
                out.violation = Some(Violation::new("size", format!("k={} p={}: {} files after write {}", k, p, count, i)));
                break;
            }
        }
        let fires = maintained.iter().filter(|x| **x).count();
        out.count("writes", maintained.len() as u64);
        out.count("maintaining_writes", fires as u64);
        if huge {
            out.count("probe:huge_capacity", 1);
        }
        if script.contains(&0) {
            out.count("probe:zero_draw", 1);
        }
        out.nontrivial = huge || (fires > 0 && fires < maintained.len());
        out.sig = sig;
        if ctx.detail || out.violation.is_some() {
            let desc = format!("k={} p={} scale={} via_stack={} writes={} planted={} script(head)={:?}", k, p, scale, via_stack, nwrites, nplant, &script[..script.len().min(10)]);
            if let Some(v) = out.violation.as_mut() {
                v.detail.push(desc.clone());
                v.detail.push(format!("maintained: {:?}", maintained));
            }
            out.sample = Some(J::obj().set("scenario", desc).set("maintained", maintained.iter().map(|b| J::Bool(*b)).collect::<Vec<_>>()).set("ops", ops));
        }
        let fin = w.finish(tape);
        out.steps = fin.steps;
        out.sim_ns = fin.sim_ns;
        out
    }
    fn assumptions(&self) -> Vec<String> {
        vec!["one trigger event per write (the harness obtains its temp directory through plain::Cache::temp_dir, which does not observe the trigger)".into(), "single writer thread: the statement is per thread".into()]
    }
}
