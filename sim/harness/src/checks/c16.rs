//! C16 — keys are validated and confined to the cache directory.

use crate::common::*;
use crate::json::J;
use crate::runner::*;
use crate::world::*;
use kismet_vfs::kernel::{DrawPolicy, Tape, K};
use std::io::ErrorKind;

pub struct C16;

fn base_names() -> Vec<String> {
    let mut v: Vec<String> = [
        "", ".", "..", ".hidden", "/", "/abs", "/sim/outer/sentinel_file", "\\", "\\back", ".kismet_temp", ".kismet_0000", "a/b", "a/../b", "a/../../escape", "a/../../sentinel_file", "a/../../sibling_dir/f", "a/./b", "a/", "a/.", "a//b", "a/.kismet_temp/x",
        "a/../.kismet_0000/x", "a/../.appfile", "a/../sub/inner", "sub/inner", "sub/newfile", "good", "good/", "good/x", "a\\b", "b\\..\\c", "caf\u{e9}", "\u{4e2d}\u{6587}", "x\0y", "\0", "a\0/../../escape", "..a", "a..", "a/..", "a/../good", " lead", "tr ail ", "~", "-rf", "*",
    ]
    .iter()
    .map(|s| s.to_string())
    .collect();
    v.push("n".repeat(255));
    v.push("n".repeat(256));
    v.push(format!("a/{}", "m".repeat(255)));
    v.push("p/".repeat(2100));
    v
}

fn draw_name(t: &mut Tape) -> String {
    let names = base_names();
    let mut n = t.pick(&names).clone();
    // mutations
    match t.draw(8) {
        0 => n.push_str("/../../escape"),
        1 => n = format!("z{}", n),
        2 => n = format!("{}/..", n),
        3 => {
            if !n.is_empty() {
                let cut = t.draw(n.len() as u64) as usize;
                if n.is_char_boundary(cut) {
                    n.truncate(cut);
                }
            }
        }
        4 => n = n.replace('/', "//"),
        _ => {}
    }
    n
}

fn statement_invalid(name: &str) -> bool {
    matches!(name.as_bytes().first(), None | Some(b'.') | Some(b'/') | Some(b'\\'))
}

impl Check for C16 {
    fn id(&self) -> &'static str {
        "C16"
    }
    fn rule(&self) -> String {
        "names from a grammar (empty; first byte '.', '/', '\\\\'; embedded '/', '..' and '.' components, trailing '/', '//', paths into .kismet_temp / shard directories / nested directories / dot-files / the sentinels outside the root; 255- and 256-byte names; over-long paths; non-ASCII; embedded NUL) plus tape-driven mutations x every operation (get, touch, set, put, set_temp_file, put_temp_file, ensure, get_or_update x 3) x plain / sharded / stacked / read-only front-ends x pre-states (component `a` absent, a directory, a file; key present) inside a sentinel tree (files and directories beside and above the cache root, nested directories and dot-files inside it), optionally with the first publication attempt failing (EIO/ENOENT) so that the retry path runs, and optionally with capacity 1 and the maintenance trigger firing on every write (a rejected name must not even evict). Oracle: a name the statement calls invalid => InvalidInput and a byte/mode/timestamp-identical world; any other name => every mutating call resolves to <cache or shard dir>/<name> with <name> one component, to .kismet_temp/*, or to creating those directories, and every sentinel is untouched (atime included). Non-trivial = the name is rejected or contains a separator/NUL/dot component; distinct = (name class, operation, front-end, pre-state, fault)".to_string()
    }
    fn runs(&self, tier: Tier) -> u64 {
        match tier {
            Tier::Quick => 2_000_000,
            Tier::Thorough => 80_000_000,
        }
    }
    fn run(&self, tape: &mut Tape, ctx: &RunCtx) -> RunOut {
        let mut out = RunOut::default();
        let kn = draw_knobs(tape);
        let name = draw_name(tape);
        let front = tape.draw(4); // 0 plain 1 sharded 2 stack 3 readonly
        let sharded_root = front == 1 || (front >= 2 && tape.draw(2) == 1);
        let nshards = 2 + tape.draw(2) as usize;
        let pre_a = tape.draw(3); // 0 absent, 1 directory, 2 file
        let fail_first_pub = tape.draw(3) == 0;
        // maintenance dimension: tiny capacity and a trigger that fires on
        // every write, so that a write would evict the planted entries
        let fire = tape.draw(3) == 0;
        let fail_errno = *tape.pick(&[libc::ENOENT, libc::EIO]);
        let (kh, ks) = solve_key(tape, nshards, (0, 1));
        let key = KeySpec { name: name.clone(), hash: kh, sec: ks };
        let mut fs = new_fs(&kn);
        let outer = "/sim/outer";
        let root = format!("{}/cache", outer);
        let ro_root = format!("{}/ro", outer);
        let past = fs.now - 86_400_000_000_000;
        fs.mkdir_all(&root);
        fs.mkdir_all(&ro_root);
        fs.mkdir_all(&format!("{}/sibling_dir", outer));
        fs.plant_file(&format!("{}/sentinel_file", outer), &make_value("sentinel_file", 50, 4), 0o444, past - 120_000_000_000, past);
        fs.plant_file(&format!("{}/escape", outer), &make_value("escape", 51, 4), 0o444, past - 120_000_000_000, past);
        fs.plant_file(&format!("{}/sibling_dir/f", outer), &make_value("f", 52, 4), 0o644, past, past);
        fs.plant_file("/sim/escape", &make_value("escape", 53, 4), 0o444, past - 120_000_000_000, past);
        // physical directory where keys of this front-end live
        let phys: Vec<String> = if sharded_root { vec![format!("{}/{}", root, shard_dir_name(0)), format!("{}/{}", root, shard_dir_name(1))] } else { vec![root.clone()] };
        for p in phys.iter() {
            fs.mkdir_all(p);
            fs.mkdir_all(&format!("{}/sub", p));
            fs.plant_file(&format!("{}/sub/inner", p), &make_value("inner", 54, 4), 0o444, past - 120_000_000_000, past);
            fs.plant_file(&format!("{}/.appfile", p), &make_value(".appfile", 55, 4), 0o644, past - 120_000_000_000, past);
            // a dot-file whose name is not valid UTF-8 on disk (byte 0xFF)
            fs.plant_file(&format!("{}/.app\u{F7FF}file", p), &make_value(".appfile", 59, 4), 0o644, past - 120_000_000_000, past);
            fs.plant_file(&format!("{}/good", p), &make_value("good", 56, 4), 0o444, past - 120_000_000_000, past);
            fs.plant_file(&format!("{}/escape", p), &make_value("escape", 57, 4), 0o444, past - 120_000_000_000, past);
            match pre_a {
                1 => fs.mkdir_all(&format!("{}/a", p)),
                2 => {
                    fs.plant_file(&format!("{}/a", p), &make_value("a", 58, 4), 0o444, past - 120_000_000_000, past);
                }
                _ => {}
            }
            if tape.draw(2) == 1 {
                fs.mkdir_all(&format!("{}/.kismet_temp", p));
                if tape.draw(2) == 1 {
                    // an application staging directory inside the temporary
                    // directory, older than the age limit, holding live files
                    // whose names also exist as stale files one level up
                    let td = format!("{}/.kismet_temp", p);
                    let old = fs.now - 7_200_000_000_000;
                    fs.mkdir_all(&format!("{}/stage", td));
                    for i in 0..3 {
                        fs.plant_file(&format!("{}/stage/n{}", td, i), b"live staging data", 0o644, fs.now - 1_000_000_000, fs.now - 1_000_000_000);
                        fs.plant_file(&format!("{}/n{}", td, i), b"stale", 0o600, old, old);
                    }
                    if let Ok(st) = fs.stat(&format!("{}/stage", td)) {
                        fs.utimens_ino(st.ino, old, old);
                    }
                }
            }
        }
        fs.plant_file(&format!("{}/good", ro_root), &make_value("good", 59, 4), 0o444, past - 120_000_000_000, past);
        let dirs = vec![DirSpec { path: root.clone(), kind: if sharded_root { DirKind::Sharded(nshards) } else { DirKind::Plain }, capacity: if fire { if sharded_root { nshards } else { 1 } } else { 1_000_000 } }, DirSpec { path: ro_root.clone(), kind: DirKind::Plain, capacity: 1_000_000 }];
        let mut w = World::new(fs, &kn, tape, 1, 1, dirs, WorldCfg { readonly: vec![1], check_confined: true, extra_writable: vec![] });
        w.script_trigger(0, vec![], DrawPolicy::Const(if fire { FIRE_NOW } else { u64::MAX }));
        let spec = match front {
            0 if !sharded_root => HandleSpec::Plain(0),
            0 | 1 => {
                if sharded_root {
                    HandleSpec::Sharded(0)
                } else {
                    HandleSpec::Plain(0)
                }
            }
            // (half of the stacks have no read-only level behind the writer:
            //  nothing but the write side is there to look at the name)
            2 => HandleSpec::Stack { writer: Some(0), readers: if w.draw(2) == 0 { vec![1] } else { vec![] }, auto_sync: w.draw(2) == 0, checker: CheckerKind::None },
            _ => HandleSpec::ReadOnly { readers: vec![0, 1], checker: CheckerKind::None },
        };
        let is_stack = matches!(spec, HandleSpec::Stack { .. });
        let is_ro = matches!(spec, HandleSpec::ReadOnly { .. });
        let tag = 7;
        let ops: Vec<Op> = if is_ro {
            vec![Op::Get, Op::Touch, Op::GetNoRead]
        } else if is_stack {
            vec![
                Op::Get,
                Op::Touch,
                Op::Set { tag, plen: 3 },
                Op::Put { tag, plen: 3 },
                Op::SetTemp { tag, plen: 3 },
                Op::PutTemp { tag, plen: 3 },
                Op::Ensure { tag, plen: 3, err: PopErr::None },
                Op::GetOrUpdate { action: Action::Accept, judge_reads: 2, tag, plen: 3, err: PopErr::None },
                Op::GetOrUpdate { action: Action::Promote, judge_reads: 2, tag, plen: 3, err: PopErr::None },
                Op::GetOrUpdate { action: Action::Replace, judge_reads: 2, tag, plen: 3, err: PopErr::None },
            ]
        } else {
            vec![Op::Get, Op::Touch, Op::GetNoRead, Op::Set { tag, plen: 3 }, Op::Put { tag, plen: 3 }]
        };
        let op = ops[w.draw(ops.len() as u64) as usize].clone();
        let h = w.build(&spec);
        // let the application-side preparation (temp directory) happen first
        if !is_stack && !is_ro {
            let good = KeySpec { name: "good".into(), hash: kh, sec: ks };
            let _ = w.op(0, 0, &h, 0, &good, &Op::TempDir);
        }
        if fail_first_pub {
            let mut armed = true;
            w.sim.lock().injector = Some(Box::new(move |info, _t| {
                if armed && matches!(info.kind, K::Rename | K::Link) {
                    armed = false;
                    Some(fail_errno)
                } else {
                    None
                }
            }));
        }
        let before = w.fs_clone();
        let mark = w.trace_len();
        let viol_before = w.inv.lock().unwrap().violations.len();
        let res = w.op(0, 0, &h, 0, &key, &op);
        w.leave();
        let after = w.fs_clone();
        let trace = w.trace_from(mark);
        let invalid = statement_invalid(&name);
        let mut fail = |out: &mut RunOut, class: &str, msg: String| {
            if out.violation.is_none() {
                let has_sep = name.contains('/');
                out.violation = Some(Violation::new(class, msg).attr("name_has_slash", if has_sep { "yes" } else { "no" }).attr("op", op.name()));
            }
        };
        if res.panic.is_some() {
            fail(&mut out, "panic", format!("{}", res.short()));
        }
        // world diff outside scratch and /tmp
        let skip = |p: &str| p.starts_with(SCRATCH) || p.starts_with("/tmp");
        let tb: Vec<_> = before.tree("/").into_iter().filter(|(p, _, _)| !skip(p)).collect();
        let ta: Vec<_> = after.tree("/").into_iter().filter(|(p, _, _)| !skip(p)).collect();
        let mut changed: Vec<(String, String)> = Vec::new();
        {
            let mut ia = ta.iter().peekable();
            let mut ib = tb.iter().peekable();
            loop {
                match (ib.peek(), ia.peek()) {
                    (None, None) => break,
                    (Some(b), None) => {
                        changed.push(("deleted".to_string(), b.0.clone()));
                        ib.next();
                    }
                    (None, Some(a)) => {
                        changed.push(("created".to_string(), a.0.clone()));
                        ia.next();
                    }
                    (Some(b), Some(a)) => {
                        if b.0 == a.0 {
                            let same = if b.1.is_dir { b.1.mode == a.1.mode && b.1.ino == a.1.ino } else { b.1 == a.1 && b.2 == a.2 };
                            if !same {
                                changed.push((format!("changed {:?} -> {:?}", b.1, a.1), b.0.clone()));
                            }
                            ib.next();
                            ia.next();
                        } else if b.0 < a.0 {
                            changed.push(("deleted".to_string(), b.0.clone()));
                            ib.next();
                        } else {
                            changed.push(("created".to_string(), a.0.clone()));
                            ia.next();
                        }
                    }
                }
            }
        }
        // the temporary directory itself and the files directly inside it (never
        // anything nested deeper: "nor inside nested subdirectories")
        let in_temp = |path: &str| {
            phys.iter().any(|p| {
                let td = format!("{}/.kismet_temp", p);
                path == td || path.strip_prefix(&format!("{}/", td)).map(|rest| !rest.contains('/')).unwrap_or(false)
            })
        };
        // staging through Cache::temp_dir() is a library call of its own, with
        // its own right to reclaim stale files of the temporary directory
        let changed: Vec<(String, String)> = if invalid { changed.into_iter().filter(|c| !(c.0 == "deleted" && in_temp(&c.1))).collect() } else { changed };
        if invalid {
            match &res.out {
                Err(e) if e.kind == ErrorKind::InvalidInput => {}
                other => fail(&mut out, "invalid-accepted", format!("name {:?} must be rejected with InvalidInput, got {:?}", name, other.as_ref().map(|_| "Ok").map_err(|e| e.kind))),
            }
            if !changed.is_empty() {
                fail(&mut out, "invalid-effect", format!("name {:?} was rejected but the world changed: {:?}", name, &changed[..changed.len().min(4)]));
            }
            out.count("probe:rejected", 1);
        } else {
            // all effects confined to the single expected path
            let expected: Vec<String> = phys.iter().map(|p| format!("{}/{}", p, name)).collect();
            let single = !name.contains('/') && !name.contains('\0') && name != "." && name != "..";
            for c in changed.iter() {
                let path = c.1.as_str();
                // with maintenance firing, evictions and reprieves of other
                // entries of the same directories are legitimate effects
                let maintained = fire && c.0 != "created" && matches!(classify(&w.dirs, path), Loc::Key { .. });
                let ok = (single && expected.iter().any(|e| e == path)) || in_temp(path) || phys.iter().any(|p| p == path) || path == root || maintained;
                if !ok {
                    fail(&mut out, "escape", format!("name {:?} ({}): effect outside the single expected path: {} {:?}", name, op.name(), c.0, c.1));
                }
            }
            // "every accepted name denotes exactly one regular file": a call
            // that re-stamps, re-modes, renames onto or unlinks a *directory* was
            // made on a name that denotes one (e.g. `sub/`, `sub/.`)
            // (a plain one-component name that collides with a directory the
            // application itself put there is the application's business)
            if name.contains('/') {
                let fs_after = w.fs_clone();
                for r in trace.iter().filter(|r| r.lib && r.err == 0 && matches!(r.kind, K::Utimens | K::Chmod)) {
                    let is_dir = fs_after.inodes.get(&r.ino).map(|i| i.is_dir()).unwrap_or(false);
                    if is_dir {
                        fail(&mut out, "escape", format!("name {:?} ({}): the call changed a directory, not a regular file: {}", name, op.name(), r.short()));
                    }
                }
            }
            let inv = w.inv.lock().unwrap();
            for (n, msg) in inv.violations[viol_before..].iter() {
                if *n == "confined" || *n == "readonly" {
                    fail(&mut out, "escape", format!("name {:?} ({}): {}", name, op.name(), msg));
                }
            }
        }
        let class = if invalid {
            0
        } else if name.contains('\0') {
            1
        } else if name.contains("..") {
            2
        } else if name.contains('/') {
            3
        } else if name.len() >= 255 {
            4
        } else {
            5
        };
        out.nontrivial = class < 5;
        out.sig = hash_str(&format!("{}|{}|{}|{}|{}|{}|{}|{}", class, hash_str(&name) % 64, op.name(), front, sharded_root, pre_a, fail_first_pub, fire));
        if ctx.detail || out.violation.is_some() {
            let desc = format!("name={:?} op={:?} front={:?} sharded_root={} pre_a={} fail_first_publication={} ({}) maintenance_fires={} result={}", name, op, spec, sharded_root, pre_a, fail_first_pub, fail_errno, fire, res.short());
            if let Some(v) = out.violation.as_mut() {
                v.detail.push(desc.clone());
                v.detail.extend(changed.iter().take(10).map(|c| format!("{} {:?}", c.0, c.1)));
                v.detail.extend(trace.iter().map(|r| r.short()));
            }
            out.sample = Some(J::obj().set("scenario", desc).set("world_changes", changed.iter().map(|c| format!("{} {:?}", c.0, c.1)).collect::<Vec<_>>()));
        }
        let fin = w.finish(tape);
        out.steps = fin.steps;
        out.sim_ns = fin.sim_ns;
        for (k, n) in fin.faults {
            out.count(&k, n);
        }
        out
    }
    fn assumptions(&self) -> Vec<String> {
        vec!["read-only probes outside the tree (e.g. the sharded existence stat that precedes validation) are allowed: they modify nothing".into(), "the application's own preparation (temp directory, source files in its scratch directory) is performed before the world snapshot is taken".into()]
    }
}
