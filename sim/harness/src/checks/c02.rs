//! C02 — a process crash at any point leaves every cache directory valid
//! and usable.  Crash points are enumerated: for each sampled scenario the
//! operation is run once to count its filesystem calls, then once per
//! boundary between two consecutive calls with the process killed there.

use crate::common::*;
use crate::json::J;
use crate::runner::*;
use crate::scen::*;
use crate::world::*;
use kismet_vfs::kernel::Tape;

pub struct C02;

fn judge_crash(sc: &Scenario, ex: &mut Exec, k: u64) -> Option<Violation> {
    let mk = |class: &str, msg: String| Some(Violation::new(class, msg).attr("op", sc.op.name()).attr("crash_before_call", k.to_string()));
    ex.w.leave();
    if !ex.res.crashed {
        // the operation finished before the crash point: nothing to judge
        return None;
    }
    // (i)+(ii) the surviving tree
    if let Some((c, m)) = tree_validity(sc, &ex.w).into_iter().next() {
        return mk(c, format!("after a crash before call {}: {}", k, m));
    }
    // ride-along invariants up to the crash
    {
        let inv = ex.w.inv.lock().unwrap();
        if let Some((n, m)) = inv.violations.iter().find(|(n, _)| matches!(*n, "content" | "mode" | "immutable")) {
            return mk(n, m.clone());
        }
    }
    // (v) queue metadata of the crashed operation's own value
    let (wr, _) = on_disk(sc, &ex.w);
    if let Some(tag) = sc.op.tag() {
        // (ensure and a get_or_update miss look the entry up again after
        // publishing it, which legitimately marks it; a replacement does not)
        // (operations that return a handle are excluded: ensure and a
        // get_or_update miss look the entry up again after publishing it, and
        // the application reading the returned handle marks it too)
        if matches!(sc.op, Op::Set { .. } | Op::Put { .. } | Op::SetTemp { .. } | Op::PutTemp { .. }) {
            for (path, t, atime, mtime) in wr.iter() {
                if *t == tag && atime >= mtime {
                    return mk("crash-marked", format!("{} holds the crashed operation's value but already carries a read mark (atime {} >= mtime {}): metadata was not fixed before publication", path, atime, mtime));
                }
            }
        }
    }
    // (iii) follow-up battery by a fresh process.  For every other crash
    // point the battery runs only after the age-based reclaim below, so that
    // debris sharing its inode with a published entry (a crash between link
    // and unlink) is still shared when maintenance reclaims it.
    let battery_first = k % 2 == 1;
    let before = ex.w.fs_clone();
    let mark = ex.w.trace_len();
    if battery_first {
        if let Some((c, m)) = battery(sc, &mut ex.w, 1).into_iter().next() {
            return mk(c, format!("after a crash before call {}: {}", k, m));
        }
    }
    if let Some((c, m)) = force_maintenance(sc, &mut ex.w, 1, 1).into_iter().next() {
        return mk(c, m);
    }
    // (iv) age-based reclaim: +59 minutes, then +2 hours
    ex.w.advance(59 * 60 * 1_000_000_000);
    if let Some((c, m)) = force_maintenance(sc, &mut ex.w, 2, 2).into_iter().next() {
        return mk(c, m);
    }
    let mid = ex.w.fs_clone();
    let tr1 = ex.w.trace_from(mark);
    if let Some((c, m)) = reclaim_verdicts(&before, &mid, &tr1, &sc.dirs[..1]).into_iter().next() {
        return mk(c, format!("(59 minutes after a crash before call {}) {}", k, m));
    }
    ex.w.advance(2 * HOUR);
    let mark2 = ex.w.trace_len();
    if let Some((c, m)) = force_maintenance(sc, &mut ex.w, 2, 3).into_iter().next() {
        return mk(c, m);
    }
    ex.w.leave();
    let end = ex.w.fs_clone();
    let tr2 = ex.w.trace_from(mark2);
    if let Some((c, m)) = reclaim_verdicts(&mid, &end, &tr2, &sc.dirs[..1]).into_iter().next() {
        return mk(c, format!("(3 hours after a crash before call {}) {}", k, m));
    }
    // whatever debris the crash left must be gone now
    for (p, st, _) in end.tree(&sc.dirs[0].path) {
        if !st.is_dir && p.contains("/.kismet_temp/") && sc.fs0.stat(&p).is_err() && before.stat(&p).map(|b| b.ino == st.ino).unwrap_or(false) && end.now - st.mtime > HOUR {
            // only if its directory was maintained in the last round
            let td = kismet_vfs::kernel::split_parent(&p).unwrap().0;
            if tr2.iter().any(|r| r.kind == kismet_vfs::kernel::K::Opendir && r.path == td && r.err == 0) {
                return mk("stale-temp-kept", format!("debris {} of the crashed operation is older than the limit and survived maintenance of its directory", p));
            }
        }
    }
    if let Some((c, m)) = tree_validity(sc, &ex.w).into_iter().next() {
        return mk(c, format!("after the follow-up operations (incl. maintenance 59 min and 3 h after the crash): {}", m));
    }
    if !battery_first {
        if let Some((c, m)) = battery(sc, &mut ex.w, 1).into_iter().next() {
            return mk(c, format!("3 hours after a crash before call {}: {}", k, m));
        }
        ex.w.leave();
        if let Some((c, m)) = tree_validity(sc, &ex.w).into_iter().next() {
            return mk(c, format!("after the follow-up operations: {}", m));
        }
    }
    None
}

/// Second mode: one participant of a 2-3 participant run is killed at a
/// drawn step while the others carry on; then the tree is judged and a
/// fresh process uses it.
fn concurrent_crash(tape: &mut Tape, ctx: &RunCtx) -> RunOut {
    use crate::conc::*;
    use kismet_vfs::kernel::DrawPolicy;
    let cfg = ConcCfg {
        fronts: vec![0, 1, 2, 2],
        capacities: vec![0, 1, 2, 1_000_000],
        max_parts: 3,
        max_ops: 3,
        max_keys: 2,
        ops: vec!["get", "set", "put", "ensure", "gou", "touch"],
        adversary: false,
        stale_mode: false,
        freeze: false,
        crash: true,
        fire: vec![DrawPolicy::Const(1), DrawPolicy::FireMix(300), DrawPolicy::Const(u64::MAX)],
        allow_shared_handle: true,
        missing_dirs: true,
        preexisting: true,
        clock_small: true,
        sampled_faults: false,
        clock_jump: false,
        debris: true,
        focus: 4,
    };
    let mut run = run_conc(tape, &cfg, ctx.detail);
    let mut out = RunOut::default();
    out.sig = run.sig;
    out.steps = run.steps;
    out.sim_ns = run.sim_ns;
    let crashed = run.results.iter().any(|r| r.crashed);
    out.count("concurrent_crash_runs", 1);
    out.count("fault:process_crash", crashed as u64);
    out.nontrivial = crashed;
    let mut v: Option<Violation> = None;
    if run.blocked || run.aborted.is_some() {
        out.count("aborted_runs", 1);
        return out;
    }
    // every operation the surviving participants started after the crash
    // must succeed (no faults are injected in this mode)
    if let Some(crash_step) = run.results.iter().filter(|r| r.crashed).map(|r| r.ret).min() {
        for r in run.results.iter().filter(|r| !r.crashed && r.inv >= crash_step && Some(r.proc) != run.crashed_proc) {
            if (r.panic.is_some() || r.out.is_err()) && v.is_none() {
                v = Some(Violation::new("followup-failed", format!("an operation started after a peer was killed failed: {}", r.short())));
            }
        }
    }
    let dirs = run.w.dirs.clone();
    let fs = run.w.fs_clone();
    if let Some((c, m)) = validate_tree(&fs, &dirs).into_iter().next() {
        if v.is_none() {
            v = Some(Violation::new(c, format!("after a participant was killed mid-run: {}", m)));
        }
    }
    if v.is_none() {
        for (p, st, _) in fs.tree("/") {
            if st.is_dir || p.starts_with(SCRATCH) || p.starts_with("/tmp") || run.fs0.stat(&p).map(|s| s.ino == st.ino).unwrap_or(false) {
                continue;
            }
            match classify(&dirs, &p) {
                Loc::Key { .. } | Loc::Temp { .. } => {}
                other => {
                    v = Some(Violation::new("debris", format!("{} was created outside .kismet_temp ({:?})", p, other)));
                    break;
                }
            }
        }
    }
    if v.is_none() {
        let inv = run.w.inv.lock().unwrap();
        if let Some((n, m)) = inv.violations.iter().find(|(n, _)| matches!(*n, "content" | "mode" | "immutable")) {
            v = Some(Violation::new(n, m.clone()));
        }
    }
    // a fresh process uses the surviving tree
    if v.is_none() {
        let fresh_proc = run.w.nprocs - 1;
        let mut big = dirs.clone();
        big[0].capacity = 100_000_000;
        let log: CheckerLog = Default::default();
        let h = build_handle(&run.main_spec, &big, &log);
        run.w.script_trigger(fresh_proc, vec![], DrawPolicy::Const(1));
        let keys = run.keys.clone();
        // Concurrent set/put calls on a sharded cache may legitimately leave
        // two copies of a key (documented in sharded.rs); which copy a lookup
        // then returns is not determined, so only success and content are
        // demanded for such a key.
        let dup: Vec<bool> = keys
            .iter()
            .map(|key| fs.tree(&dirs[0].path).iter().filter(|(p, st, _)| !st.is_dir && matches!(classify(&dirs, p), Loc::Key { ref name, .. } if *name == key.name)).count() > 1)
            .collect();
        for (ki, key) in keys.iter().enumerate() {
            let seq = [Op::Get, Op::Touch, Op::Put { tag: 7001, plen: 5 }, Op::Get, Op::Set { tag: 7002, plen: 0 }, Op::Get];
            let mut last_set = false;
            for op in seq.iter() {
                let r = run.w.op(fresh_proc, 0, &h, ki, key, op);
                if r.panic.is_some() || r.out.is_err() {
                    v = Some(Violation::new("followup-failed", format!("after a participant was killed, {} by a fresh process failed: {}", op.name(), r.short())));
                    break;
                }
                if let Ok(Out::Hit { data, .. }) = &r.out {
                    let t = parse_value(data).filter(|(k, _)| *k == key.name).map(|x| x.1);
                    if t.is_none() || (last_set && t != Some(7002) && !dup[ki]) {
                        v = Some(Violation::new("followup-wrong", format!("after a participant was killed, a lookup returned {}: {}", describe_bytes(data), r.short())));
                        break;
                    }
                } else if last_set && matches!(op, Op::Get) && !dup[ki] {
                    v = Some(Violation::new("followup-wrong", format!("lookup after set missed: {}", r.short())));
                    break;
                }
                last_set = matches!(op, Op::Set { .. });
            }
            if v.is_some() {
                break;
            }
        }
        run.w.leave();
        if v.is_none() {
            let fs = run.w.fs_clone();
            if let Some((c, m)) = validate_tree(&fs, &dirs).into_iter().next() {
                v = Some(Violation::new(c, format!("after the follow-up operations: {}", m)));
            }
        }
    }
    if let Some(mut v) = v {
        v.detail = describe(&run, 150);
        out.violation = Some(v);
    }
    if ctx.detail {
        out.sample = Some(J::obj().set("mode", "one participant killed while others run").set("scenario", run.desc.clone()).set("results", run.results.iter().map(|r| r.short()).collect::<Vec<_>>()));
    }
    out
}

impl Check for C02 {
    fn id(&self) -> &'static str {
        "C02"
    }
    fn level(&self) -> &'static str {
        "fault_enumeration"
    }
    fn rule(&self) -> String {
        "scenario = front-end {plain, sharded, stacked over plain, stacked over sharded, optional plain/sharded read-only level} x pre-state {cache directory missing, shard directory missing, key present/absent in the write side, key in the read-only level (promotion), directory over capacity so that maintenance evicts and reprieves (own shard and scripted other shard), stale and fresh debris in .kismet_temp} x operation {set, put, set_temp_file, put_temp_file, ensure, get_or_update x 3, get, touch, temp_dir} x value size x auto_sync, sampled by seed; per scenario EVERY boundary between two consecutive filesystem calls of the operation is taken as the point where the process dies (destructors of the dead process never reach the filesystem, its descriptors are closed). Oracle on each surviving tree: every key-named file is a complete read-only value of its key, all new files are confined to .kismet_temp, the crashed operation's own value (if visible) is unmarked, a fresh process's get/touch/put/set/ensure/forced maintenance all succeed with map semantics, temp files younger than one hour survive maintenance 59 minutes later and debris older than one hour is gone after maintenance 3 hours later. A quarter of the runs use a second mode: 2-3 concurrent participants, one of which is killed at a drawn step while the others carry on, followed by the same validity oracle and a fresh process's follow-ups. evaluations = scenarios (counters give the crash points executed); non-trivial = the crash landed strictly inside the operation; distinct = (scenario signature, crash index)".to_string()
    }
    fn runs(&self, tier: Tier) -> u64 {
        match tier {
            Tier::Quick => 15_000,
            Tier::Thorough => 900_000,
        }
    }
    fn run(&self, tape: &mut Tape, ctx: &RunCtx) -> RunOut {
        if tape.draw(4) == 3 {
            return concurrent_crash(tape, ctx);
        }
        let mut out = RunOut::default();
        let sc = draw_scenario(tape, &|_| true);
        // fault-free run: count the calls
        let mut ex0 = execute(&sc, |_| {});
        ex0.w.leave();
        let n = ex0.ncalls;
        let steps0 = ex0.w.sim.lock().step;
        if ex0.res.panic.is_some() || ex0.res.out.is_err() {
            out.violation = Some(Violation::new("fault-free-failed", format!("the fault-free run failed: {} ({})", ex0.res.short(), sc.desc)));
            return out;
        }
        out.steps = steps0;
        // one crash point is chosen by the tape for replayability of a single
        // failing point; exploration enumerates all of them
        let single = tape.draw(1_000_000);
        let points: Vec<u64> = if ctx.detail && false { vec![single % (n + 1)] } else { (0..n).collect() };
        let mut sigs = 0u64;
        let mut inside = 0u64;
        for k in points {
            let mut ex = execute(&sc, |w| {
                w.sim.lock().sched.crash_at = Some((0, k));
            });
            let v = judge_crash(&sc, &mut ex, k);
            let st = ex.w.sim.lock().step;
            out.steps += st;
            out.sim_ns += ex.w.sim.lock().fs.now - sc.fs0.now;
            if ex.res.crashed {
                inside += 1;
                sigs = mix(sigs, k);
            }
            if let Some(mut v) = v {
                v.detail.push(sc.desc.clone());
                v.detail.push(format!("fault-free run: {} calls; crashed run result: {}", n, ex.res.short()));
                v.detail.extend(trace_tail(&ex.w.trace_from(0), 70));
                out.violation = Some(v);
                break;
            }
        }
        out.count("crash_points", inside);
        out.count("fault:process_crash", inside);
        out.count(&format!("op:{}", sc.op.name()), 1);
        out.nontrivial = inside > 0;
        out.sig = mix(sc.sig, n);
        if ctx.detail {
            out.sample = Some(J::obj().set("scenario", sc.desc.clone()).set("calls_in_fault_free_run", n).set("crash_points_enumerated", inside).set("fault_free_trace", ex0.trace.iter().map(|r| r.short()).collect::<Vec<_>>()));
        }
        out
    }
    fn assumptions(&self) -> Vec<String> {
        vec![
            "a crash is a process death: the kernel's view of the tree survives intact (power loss / lost unsynced data is outside the statement)".into(),
            "the application-supplied source of a raw set/put and files in the application's scratch directory are the application's, not debris".into(),
        ]
    }
}
