pub mod c07;
pub mod c09;
pub mod c11;

use crate::runner::Check;

pub fn all() -> Vec<Box<dyn Check>> {
    vec![Box::new(c07::C07), Box::new(c09::C09), Box::new(c11::C11)]
}
