pub mod c07;

use crate::runner::Check;

pub fn all() -> Vec<Box<dyn Check>> {
    vec![Box::new(c07::C07)]
}
