pub mod c02;
pub mod c03;
pub mod c07;
pub mod c09;
pub mod c10;
pub mod c11;
pub mod c12;
pub mod c16;
pub mod c17;
pub mod c18;
pub mod c20;
pub mod cconc;
pub mod cmat;

use crate::runner::Check;

pub fn all() -> Vec<Box<dyn Check>> {
    vec![
        Box::new(cconc::C01),
        Box::new(cconc::C04),
        Box::new(cconc::C05),
        Box::new(cconc::C06),
        Box::new(c02::C02),
        Box::new(c03::C03),
        Box::new(c07::C07),
        Box::new(c09::C09),
        Box::new(c10::C10),
        Box::new(c11::C11),
        Box::new(c12::C12),
        Box::new(cmat::C13),
        Box::new(cmat::C14),
        Box::new(cmat::C15),
        Box::new(c16::C16),
        Box::new(c17::C17),
        Box::new(c18::C18),
        Box::new(cmat::C19),
        Box::new(c20::C20),
    ]
}
