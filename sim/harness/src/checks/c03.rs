//! C03 — with auto_sync, data is durable before it is visible and immutable
//! afterwards; a failed flush is never followed by publication.

use crate::common::*;
use crate::json::J;
use crate::runner::*;
use crate::scen::*;
use crate::world::*;
use kismet_vfs::kernel::{Tape, K};

pub struct C03;

fn judge_pubs(sc: &Scenario, ex: &Exec, auto_sync: bool) -> Option<Violation> {
    let inv = ex.w.inv.lock().unwrap();
    let mk = |class: &str, msg: String| Some(Violation::new(class, msg).attr("op", sc.op.name()));
    for p in inv.pubs.iter() {
        // only publications into the write cache
        if !p.dest.starts_with(&format!("{}/", sc.dirs[0].path)) {
            continue;
        }
        if auto_sync && p.dirty {
            return mk("published-dirty", format!("inode {} appeared under {} at step {} with unflushed data (no successful fsync after its last write)", p.ino, p.dest, p.step));
        }
        if p.mode & 0o222 != 0 {
            return mk("published-writable", format!("inode {} appeared under {} with mode {:o}", p.ino, p.dest, p.mode));
        }
    }
    if let Some((n, m)) = inv.violations.iter().find(|(n, _)| matches!(*n, "immutable" | "mode" | "content")) {
        return mk(n, m.clone());
    }
    None
}

/// The same per-inode oracle riding on concurrent runs: stacked caches with
/// auto_sync on, tiny capacities (every write maintains and evicts), an
/// adversary deleting published files -- so that "the entry is already there,
/// nothing will be published" decisions can be invalidated under the writer's
/// feet.
fn concurrent_ride_along(tape: &mut Tape, ctx: &RunCtx) -> RunOut {
    use crate::conc::*;
    use kismet_vfs::kernel::DrawPolicy;
    let cfg = ConcCfg {
        fronts: vec![2],
        capacities: vec![0, 1, 2, 1_000_000],
        max_parts: 3,
        max_ops: 4,
        max_keys: 2,
        ops: vec!["get", "set", "put", "put", "ensure", "gou", "touch"],
        adversary: true,
        stale_mode: false,
        freeze: false,
        crash: false,
        fire: vec![DrawPolicy::Const(1), DrawPolicy::FireMix(300)],
        allow_shared_handle: true,
        missing_dirs: false,
        preexisting: true,
        clock_small: true,
        sampled_faults: false,
        clock_jump: false,
        debris: true,
        focus: 4,
    };
    let run = run_conc(tape, &cfg, ctx.detail);
    let mut out = RunOut::default();
    out.sig = run.sig;
    out.steps = run.steps;
    out.sim_ns = run.sim_ns;
    out.count("concurrent_runs", 1);
    let auto_sync = matches!(run.main_spec, HandleSpec::Stack { auto_sync: true, .. });
    let wroot = format!("{}/", run.w.dirs[0].path);
    let mut v: Option<Violation> = None;
    let mut npubs = 0;
    {
        let inv = run.w.inv.lock().unwrap();
        for p in inv.pubs.iter().filter(|p| p.dest.starts_with(&wroot)) {
            npubs += 1;
            if auto_sync && p.dirty && v.is_none() {
                v = Some(Violation::new("published-dirty", format!("(concurrent run) inode {} appeared under {} at step {} with unflushed data", p.ino, p.dest, p.step)));
            }
            if p.mode & 0o222 != 0 && v.is_none() {
                v = Some(Violation::new("published-writable", format!("(concurrent run) inode {} appeared under {} with mode {:o}", p.ino, p.dest, p.mode)));
            }
        }
        if let Some((n, m)) = inv.violations.iter().find(|(n, _)| *n == "immutable") {
            if v.is_none() {
                v = Some(Violation::new(n, m.clone()));
            }
        }
    }
    out.count("publications", npubs);
    out.nontrivial = auto_sync && npubs > 0;
    if auto_sync {
        out.count("publications_with_auto_sync", npubs);
    }
    if let Some(mut v) = v {
        v.detail = describe(&run, 200);
        out.violation = Some(v);
    }
    if ctx.detail {
        out.sample = Some(J::obj().set("mode", "concurrent ride-along").set("scenario", run.desc.clone()));
    }
    out
}

impl Check for C03 {
    fn id(&self) -> &'static str {
        "C03"
    }
    fn level(&self) -> &'static str {
        "fault_enumeration"
    }
    fn rule(&self) -> String {
        "every publishing path {Cache::set, put, set_temp_file, put_temp_file, ensure miss, get_or_update miss / Replace on a primary or secondary hit / Promote from a plain or sharded read-only level; raw plain/sharded set/put as the auto_sync-off baseline} x {plain, sharded} write side x pre-states of C02 (incl. maintenance in the same call) x value size (multi-chunk) x auto_sync on/off, sampled by seed. Oracle over the complete call trace, per inode: at each publication (rename/link onto a key name in the write cache) the inode's dirty bit is clear when auto_sync is on (a successful fsync/fdatasync follows its last write/truncate), its mode has no write bit, and afterwards it is never written, truncated or re-moded. Then every fsync of the fault-free trace fails in turn with EIO/ENOSPC/EDQUOT: the call must fail (or panic with the documented message) and that inode must never be published in the run; and every rename/link onto a key name fails once in turn with EXDEV/ENOENT/EIO/ENOSPC/EACCES, whatever the retry or fallback path then publishes being held to the same per-inode oracle; and every utimens/chmod/fchmod/lstat/stat/open that precedes a publication fails once with EIO, under the same oracle (a retry path may not publish what was never made read-only). One run in 40 is instead a concurrent run (2-3 participants on a stacked cache with auto_sync, capacities 0-2 so that every write evicts, an adversary deleting published files) judged by the same publication oracle. evaluations = scenarios; non-trivial = at least one publication with auto_sync on; distinct = scenario signature".to_string()
    }
    fn runs(&self, tier: Tier) -> u64 {
        match tier {
            Tier::Quick => 300_000,
            Tier::Thorough => 15_000_000,
        }
    }
    fn run(&self, tape: &mut Tape, ctx: &RunCtx) -> RunOut {
        if tape.draw(40) == 39 {
            return concurrent_ride_along(tape, ctx);
        }
        let mut out = RunOut::default();
        let sc = draw_scenario(tape, &|o| matches!(o, Op::Set { .. } | Op::Put { .. } | Op::SetTemp { .. } | Op::PutTemp { .. } | Op::Ensure { .. } | Op::GetOrUpdate { .. }));
        let auto_sync = matches!(sc.spec, HandleSpec::Stack { auto_sync: true, .. });
        let mut ex0 = execute(&sc, |_| {});
        ex0.w.leave();
        out.steps = ex0.w.sim.lock().step;
        out.sim_ns = ex0.w.sim.lock().fs.now - sc.fs0.now;
        if ex0.res.panic.is_some() || ex0.res.out.is_err() {
            out.violation = Some(Violation::new("fault-free-failed", format!("the fault-free run failed: {} ({})", ex0.res.short(), sc.desc)));
            return out;
        }
        let npubs = ex0.w.inv.lock().unwrap().pubs.iter().filter(|p| p.dest.starts_with(&format!("{}/", sc.dirs[0].path))).count();
        if let Some(mut v) = judge_pubs(&sc, &ex0, auto_sync) {
            v.detail.push(sc.desc.clone());
            v.detail.extend(trace_tail(&ex0.trace, 80));
            out.violation = Some(v);
        }
        out.count("publications", npubs as u64);
        out.count(&format!("op:{}", sc.op.name()), 1);
        if auto_sync && npubs > 0 {
            out.count("publications_with_auto_sync", npubs as u64);
        }
        // failed flush: each fsync of the fault-free trace in turn
        let fsyncs: Vec<u64> = ex0.trace.iter().filter(|r| r.proc == 0 && matches!(r.kind, K::Fsync | K::Fdatasync)).map(|r| r.call_index).collect();
        if out.violation.is_none() {
            'f: for idx in fsyncs.iter() {
                for errno in [libc::EIO, libc::ENOSPC, libc::EDQUOT] {
                    let (target, e) = (*idx, errno);
                    let mut ex = execute(&sc, |w| {
                        w.sim.lock().injector = Some(Box::new(move |info, _t| if info.proc == 0 && info.call_index == target { Some(e) } else { None }));
                    });
                    ex.w.leave();
                    out.steps += ex.w.sim.lock().step;
                    out.count(&format!("fault:Fsync/{}", errno_name(e)), 1);
                    let failed_ino = ex.trace.iter().find(|r| r.injected).map(|r| r.ino).unwrap_or(0);
                    let ok_result = match (&ex.res.panic, &ex.res.out) {
                        (Some(p), _) => p.contains("auto_sync failed"),
                        (None, Err(_)) => true,
                        (None, Ok(_)) => false,
                    };
                    let published_after = ex.w.inv.lock().unwrap().pubs.iter().any(|p| p.ino == failed_ino);
                    let v = if !ok_result {
                        Some(Violation::new("flush-failure-swallowed", format!("fsync #{} failed with {} but the operation reported {}", idx, errno_name(e), ex.res.short())).attr("op", sc.op.name()))
                    } else if published_after {
                        Some(Violation::new("published-after-failed-flush", format!("fsync #{} of inode {} failed with {} and the inode was published afterwards", idx, failed_ino, errno_name(e))).attr("op", sc.op.name()))
                    } else {
                        None
                    };
                    if let Some(mut v) = v {
                        v.detail.push(sc.desc.clone());
                        v.detail.extend(trace_tail(&ex.trace, 80));
                        out.violation = Some(v);
                        break 'f;
                    }
                }
            }
        }
        // failed publication: each rename/link onto a key name fails once, so
        // that whatever retry or fallback path the call has runs; what that
        // path publishes is held to the same per-inode oracle
        let pubs_calls: Vec<u64> = ex0.trace.iter().filter(|r| r.proc == 0 && r.lib && matches!(r.kind, K::Rename | K::Link) && matches!(classify(&sc.dirs, &r.path2), Loc::Key { .. })).map(|r| r.call_index).collect();
        if out.violation.is_none() {
            'p: for idx in pubs_calls.iter() {
                for errno in [libc::EXDEV, libc::ENOENT, libc::EIO, libc::ENOSPC, libc::EACCES] {
                    let (target, e) = (*idx, errno);
                    let mut ex = execute(&sc, |w| {
                        w.sim.lock().injector = Some(Box::new(move |info, _t| if info.proc == 0 && info.call_index == target { Some(e) } else { None }));
                    });
                    ex.w.leave();
                    out.steps += ex.w.sim.lock().step;
                    out.count(&format!("fault:Publish/{}", errno_name(e)), 1);
                    if ex.res.panic.is_some() {
                        continue; // C18's business
                    }
                    if let Some(mut v) = judge_pubs(&sc, &ex, auto_sync) {
                        v.msg = format!("after the publication call #{} failed once with {}: {}", idx, errno_name(e), v.msg);
                        v.detail.push(sc.desc.clone());
                        v.detail.push(format!("result: {}", ex.res.short()));
                        v.detail.extend(trace_tail(&ex.trace, 80));
                        out.violation = Some(v);
                        break 'p;
                    }
                }
            }
        }
        // a failing preparation step: each utimens/chmod/fchmod/lstat/open that
        // precedes a publication fails once (EIO).  The call usually fails; if
        // its retry path publishes anyway, the file must still have been made
        // read-only (and flushed) first.
        let last_pub = pubs_calls.iter().copied().max();
        let preps: Vec<u64> = ex0.trace.iter().filter(|r| r.proc == 0 && r.lib && (matches!(r.kind, K::Utimens | K::Chmod | K::Fchmod | K::Lstat | K::Stat) || (r.kind == K::Open && r.arg & kismet_vfs::kernel::O_CREATE == 0)) && last_pub.map(|l| r.call_index < l).unwrap_or(false)).map(|r| r.call_index).collect();
        if out.violation.is_none() {
            for idx in preps.iter() {
                let target = *idx;
                let mut ex = execute(&sc, |w| {
                    w.sim.lock().injector = Some(Box::new(move |info, _t| if info.proc == 0 && info.call_index == target { Some(libc::EIO) } else { None }));
                });
                ex.w.leave();
                out.steps += ex.w.sim.lock().step;
                out.count("fault:Prepare/EIO", 1);
                if ex.res.panic.is_some() {
                    continue;
                }
                if let Some(mut v) = judge_pubs(&sc, &ex, auto_sync) {
                    v.msg = format!("after the preparation call #{} failed once with EIO: {}", idx, v.msg);
                    v.detail.push(sc.desc.clone());
                    v.detail.push(format!("result: {}", ex.res.short()));
                    v.detail.extend(trace_tail(&ex.trace, 80));
                    out.violation = Some(v);
                    break;
                }
            }
        }
        if auto_sync && npubs > 0 && fsyncs.is_empty() && out.violation.is_none() {
            // cannot happen on a correct tree (judge_pubs would have flagged
            // the dirty publication); kept as a probe
            out.count("probe:auto_sync_publication_without_fsync", 1);
        }
        out.nontrivial = auto_sync && npubs > 0;
        out.sig = sc.sig;
        if ctx.detail {
            out.sample = Some(J::obj().set("scenario", sc.desc.clone()).set("publications", npubs).set("fsync_calls", fsyncs.len()).set("trace", ex0.trace.iter().map(|r| r.short()).collect::<Vec<_>>()));
        }
        out
    }
    fn assumptions(&self) -> Vec<String> {
        vec!["durability is judged on call order and a per-inode dirty bit cleared by a successful fsync/fdatasync; the loss of unsynced data at power failure is not simulated, and the crate explicitly does not sync directories".into(), "raw plain::Cache / sharded::Cache writes are documented not to sync: only the read-only and immutability clauses apply to them".into()]
    }
}
