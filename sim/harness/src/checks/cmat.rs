//! C13, C14, C15, C19: checks over the stacked-cache configuration matrix.

use crate::common::*;
use crate::hist::{self, HistParams, OpWeights};
use crate::runner::*;
use crate::stackmat::*;
use kismet_vfs::kernel::Tape;
use std::sync::OnceLock;

fn configs() -> &'static Vec<Config> {
    static C: OnceLock<Vec<Config>> = OnceLock::new();
    C.get_or_init(all_configs)
}

pub const POPS13: [Pop; 3] = [Pop::Val(3), Pop::NotFound, Pop::Other];
pub const POPS14: [Pop; 4] = [Pop::Val(1), Pop::Val(2), Pop::NotFound, Pop::Other];
pub const CHK14: [CheckerKind; 4] = [CheckerKind::None, CheckerKind::Recording, CheckerKind::Panicking, CheckerKind::Lenient];

pub fn n13() -> u64 {
    (configs().len() * OPS13.len() * POPS13.len()) as u64
}

pub fn point13(i: u64) -> Point {
    let i = i as usize;
    let c = &configs()[i % configs().len()];
    let r = i / configs().len();
    let op = OPS13[r % OPS13.len()];
    let pop = POPS13[(r / OPS13.len()) % POPS13.len()];
    Point { cfg: c.clone(), op, pop, checker: CheckerKind::None, bad_name: None, missing_dirs: false, fault_scratch: false }
}

fn configs14() -> Vec<&'static Config> {
    static C: OnceLock<Vec<Config>> = OnceLock::new();
    C.get_or_init(|| configs_upto(3)).iter().filter(|c| !c.content.is_empty()).collect()
}

pub fn n14() -> u64 {
    (configs14().len() * OPS14.len() * POPS14.len() * CHK14.len()) as u64
}

pub fn point14(i: u64) -> Point {
    let i = i as usize;
    let cs = configs14();
    let c = cs[i % cs.len()];
    let r = i / cs.len();
    let op = OPS14[r % OPS14.len()];
    let r = r / OPS14.len();
    let pop = POPS14[r % POPS14.len()];
    let checker = CHK14[(r / POPS14.len()) % CHK14.len()];
    Point { cfg: c.clone(), op, pop, checker, bad_name: None, missing_dirs: false, fault_scratch: false }
}

pub struct C13;
impl Check for C13 {
    fn id(&self) -> &'static str {
        "C13"
    }
    fn rule(&self) -> String {
        format!("the full matrix of {} points = write side {{none, plain, sharded}} x 0-2 read-only levels each plain/sharded x each level holding {{nothing, A, B}} x operation {{get, touch, ensure, get_or_update x {{Accept, Promote, Replace}}, set, put, set_temp_file, put_temp_file}} x populate outcome {{value C, NotFound, Other error}}, each point run on a fresh simulated filesystem (quick: 100 times; thorough: 5000 times) with swarm dimensions auto_sync, value sizes, atime policy, granularity, umask, judge read length, reader noise by a second process and (a quarter of the runs) a lenient checker that accepts differing copies; judged against a reference model of the stack (returned bytes, judge argument, populate's old argument, before/after snapshots of every level); one run in 200 is a concurrent run (stacked cache, read-only level pre-populated, peers putting/setting the same keys) in which every Replace must return exactly the value it populated and no insert-if-absent operation (put, ensure, Accept, Promote) may replace an entry that exists when it publishes. Every point is non-trivial; distinct = matrix point", n13())
    }
    fn runs(&self, tier: Tier) -> u64 {
        match tier {
            Tier::Quick => n13() * 100,
            Tier::Thorough => n13() * 5000,
        }
    }
    fn exhaustive(&self, _tier: Tier) -> bool {
        true
    }
    fn run(&self, tape: &mut Tape, ctx: &RunCtx) -> RunOut {
        if tape.draw(200) == 199 {
            return c13_concurrent(tape, ctx);
        }
        let mut pt = point13(ctx.index % n13());
        // a quarter of the runs: a checker that is shown the copies and accepts
        // whatever they hold (compatible but different values) -- lookups
        // must still resolve to the first copy in registration order
        if tape.draw(4) == 3 {
            pt.checker = CheckerKind::Lenient;
        }
        to_runout(run_point(tape, &pt, ctx.detail), &["c13"], ctx.detail)
    }
    fn assumptions(&self) -> Vec<String> {
        vec!["exhaustive over the stated matrix; the swarm dimensions on top of it are sampled".into()]
    }
}

/// Concurrent ride-along: whatever peers do in the meantime, a
/// get_or_update whose populate function was called with a Replace verdict
/// (or on a miss) returns a complete value of the key, and a Replace returns
/// exactly the value it populated ("Replace ... stores the newly populated
/// value in the write cache and returns it").
fn c13_concurrent(tape: &mut Tape, ctx: &RunCtx) -> RunOut {
    use crate::conc::*;
    use kismet_vfs::kernel::DrawPolicy;
    let cfg = ConcCfg {
        fronts: vec![2],
        capacities: vec![1_000_000],
        max_parts: 3,
        max_ops: 3,
        max_keys: 2,
        ops: vec!["gou", "gou", "put", "set", "get", "ensure"],
        adversary: false,
        stale_mode: false,
        freeze: false,
        crash: false,
        fire: vec![DrawPolicy::Const(u64::MAX)],
        allow_shared_handle: true,
        missing_dirs: false,
        preexisting: true,
        clock_small: true,
        sampled_faults: false,
        clock_jump: false,
        debris: false,
        focus: 0,
    };
    let run = run_conc(tape, &cfg, ctx.detail);
    let mut out = RunOut::default();
    out.sig = run.sig;
    out.steps = run.steps;
    out.sim_ns = run.sim_ns;
    out.count("concurrent_runs", 1);
    let mut v: Option<Violation> = None;
    let mut replaces = 0;
    for r in run.results.iter() {
        if let (Op::GetOrUpdate { action: Action::Replace, tag, .. }, Ok(Out::Hit { data, .. })) = (&r.op, &r.out) {
            if !matches!(run.hspecs[r.handle], HandleSpec::Stack { .. }) {
                continue;
            }
            replaces += 1;
            let got = parse_value(data).filter(|(k, _)| *k == run.keys[r.key].name).map(|x| x.1);
            // (on a miss the judge is never consulted: that is the put path,
            // where the winner's value is legitimately returned)
            if r.judge_saw.is_some() && r.populate_called && got != Some(*tag) && v.is_none() {
                v = Some(Violation::new("replace-result", format!("get_or_update judged Replace and populated value #{}, but returned {}: {}", tag, describe_bytes(data), r.short())));
            }
        }
    }
    if v.is_none() {
        v = putlike_overwrite(&run);
    }
    out.count("replace_operations", replaces);
    out.nontrivial = replaces > 0;
    if let Some(mut v) = v {
        v.detail = describe(&run, 200);
        out.violation = Some(v);
    }
    if ctx.detail {
        out.sample = Some(crate::json::J::obj().set("mode", "concurrent ride-along").set("scenario", run.desc.clone()));
    }
    out
}

pub struct C14;
impl Check for C14 {
    fn id(&self) -> &'static str {
        "C14"
    }
    fn rule(&self) -> String {
        format!("the full matrix of {} points = stacks of 1-3 levels (write side optional, levels plain or sharded) x each level in {{absent, A, B}} x operation {{get, ensure, get_or_update x actions}} x populate in {{A, B, NotFound, Other error}} x checker {{none, byte equality (recording argument inodes), panicking, lenient (recording, accepts everything)}}; oracle: success iff all present copies (and the populated value when it is compared) are identical, checker errors and panics reach the caller, the recorded comparisons connect every present copy to the returned one, and with no checker later read-only levels are never opened; in a quarter of the runs the creation of the scratch file used for the populate comparison fails with ENOENT (directory vanished), which must surface as an error and not be taken for the populate function's NotFound; in a quarter of all matrix runs futimens fails with EPERM (reader does not own the files). Every point is non-trivial; distinct = matrix point", n14())
    }
    fn runs(&self, tier: Tier) -> u64 {
        match tier {
            Tier::Quick => n14() * 30,
            Tier::Thorough => n14() * 1500,
        }
    }
    fn exhaustive(&self, _tier: Tier) -> bool {
        true
    }
    fn run(&self, tape: &mut Tape, ctx: &RunCtx) -> RunOut {
        let mut pt = point14(ctx.index % n14());
        // fault dimension: the scratch file for the comparison cannot be
        // created (its directory vanished: ENOENT) -- that is not "the
        // populate function reports NotFound"
        pt.fault_scratch = tape.draw(4) == 3;
        to_runout(run_point(tape, &pt, ctx.detail), &["c14"], ctx.detail)
    }
    fn assumptions(&self) -> Vec<String> {
        vec!["'first copy against every other copy' is read through the statement's own quantifier (success iff all copies are byte-identical): the code compares write-side hit <-> first read-side hit and first read-side hit <-> later ones, which is equivalent for an equivalence such as byte equality".into()]
    }
}

pub struct C15;
impl Check for C15 {
    fn id(&self) -> &'static str {
        "C15"
    }
    fn rule(&self) -> String {
        format!("(i) every point of the C13 matrix ({}) and of the C14 matrix ({}), with the read-only levels declared read-only to the oracle, plus drawn extras: invalid key names, read-only directories that do not exist, missing shard directories; (ii) seeded sequential histories (15-60 ops, 1-3 processes) in which 1-2 planted directories are only ever read-only levels while other handles write, promote, replace and run maintenance next to them. Oracle: no mutating call (create/write/truncate/rename/link/unlink/mkdir/rmdir/chmod/utimens with an mtime) resolves under a read-only root, before/after snapshots are equal up to atime, atime only advances and only on entries that were found, missing roots stay missing. Non-trivial = at least one read-only level exists; distinct = matrix point or history signature", n13(), n14())
    }
    fn runs(&self, tier: Tier) -> u64 {
        match tier {
            Tier::Quick => (n13() + n14() + 6_000) * 10,
            Tier::Thorough => (n13() + n14() + 6_000) * 400,
        }
    }
    fn run(&self, tape: &mut Tape, ctx: &RunCtx) -> RunOut {
        let period = n13() + n14() + 6_000;
        let i = ctx.index % period;
        if i < n13() + n14() {
            let mut pt = if i < n13() { point13(i) } else { point14(i - n13()) };
            let has_readers = !pt.cfg.readers.is_empty();
            pt.missing_dirs = tape.draw(3) == 2;
            if tape.draw(5) == 4 && !pt.cfg.content.is_empty() {
                pt.bad_name = Some(tape.pick(&[".hidden", "", "/abs", "\\back", ".", "..", ".kismet_temp"]).to_string());
            }
            let mut out = to_runout(run_point(tape, &pt, ctx.detail), &["c15"], ctx.detail);
            out.nontrivial = has_readers;
            out
        } else {
            let hp = HistParams {
                max_dirs: 3,
                allow_sharded: true,
                allow_stack: true,
                allow_readonly_handles: true,
                max_procs: 3,
                min_ops: 15,
                max_ops: 60,
                no_eviction: false,
                readonly_roots: 1 + tape.draw(2) as usize,
                op_weights: OpWeights { get: 3, get_noread: 1, touch: 2, set: 2, put: 2, ensure: 4, gou: 4 }, final_prune: false
            };
            let rep = hist::run_history(tape, &hp, ctx.detail);
            let mut out = hist::to_runout(rep, &["ro"], ctx.detail);
            out.nontrivial = true;
            out
        }
    }
    fn assumptions(&self) -> Vec<String> {
        vec!["read-only roots are declared to the oracle, not enforced by SimFs: a write would go through and be seen".into()]
    }
}

pub struct C19;
impl Check for C19 {
    fn id(&self) -> &'static str {
        "C19"
    }
    fn rule(&self) -> String {
        format!("every point of the C13 matrix ({}) and of the C14 matrix ({}) x process umask drawn from {{000, 022, 077}} x judge functions reading 0 / 3 / all bytes x recording checkers reading to the end x application sources created 0666&~umask; for every returned handle the simulated open-file description must be read-only at offset 0 and read back the whole value; every published file has no write bits, and files populated by the library or passed as temp-file objects have mode 0444 exactly. Non-trivial = the call returned a handle or published a file; distinct = matrix point x umask", n13(), n14())
    }
    fn runs(&self, tier: Tier) -> u64 {
        match tier {
            Tier::Quick => (n13() + n14()) * 25,
            Tier::Thorough => (n13() + n14()) * 1200,
        }
    }
    fn exhaustive(&self, _tier: Tier) -> bool {
        true
    }
    fn run(&self, tape: &mut Tape, ctx: &RunCtx) -> RunOut {
        let i = ctx.index % (n13() + n14());
        let pt = if i < n13() { point13(i) } else { point14(i - n13()) };
        to_runout(run_point(tape, &pt, ctx.detail), &["c19"], ctx.detail)
    }
    fn assumptions(&self) -> Vec<String> {
        vec!["access mode and offset are read from the simulated descriptor table at the moment the call returns".into(), "the throw-away file returned when there is no write side is not cached data: only offset and content are checked".into()]
    }
}
