//! C20 — per-operation resource use is constant.

use crate::common::*;
use crate::json::J;
use crate::runner::*;
use crate::world::*;
use kismet_vfs::kernel::{DrawPolicy, Tape, K};
use kismet_vfs::std::fs::File;
use std::collections::BTreeMap;
use std::io::{Read, Write};

pub struct C20;

const SIZES: [usize; 4] = [0, 10, 100, 2000];

#[derive(Clone, Copy, Debug, PartialEq, Eq)]
enum Op20 {
    GetHit,
    GetMiss,
    TouchHit,
    TouchMiss,
    Set,
    PutInsert,
    PutExisting,
}

struct Obs {
    kinds: BTreeMap<K, usize>,
    peak: usize,
    residual: isize,
    opens_per_dir: Vec<usize>,
    listings: usize,
    locks: usize,
    result: String,
    trace: Vec<String>,
}

impl Check for C20 {
    fn id(&self) -> &'static str {
        "C20"
    }
    fn rule(&self) -> String {
        "each scenario = operation {get hit/miss, touch hit/miss, set, put insert/existing} x front-end {plain, sharded, stacked depth 1-3 with plain/sharded levels, read-only depth 1-3} x hit level x checker on/off, executed on four fresh simulated filesystems whose directories (each shard, for sharded) are pre-populated with 0, 10, 100 and 2000 entries, maintenance scripted not to fire; and again with maintenance firing for the descriptor clauses; in a third of the write scenarios the first publication attempt (rename/link) fails with EIO/ENOSPC/ENOENT/EXDEV/EACCES so that the retry path runs on the populated directory; one scenario in 24 measures the operation through a warm handle (600 earlier writes through it, load estimates saturated) instead of a fresh one. Oracle from the call trace and the simulated descriptor table: the multiset of call kinds is identical across the four sizes, a lookup makes <= 2 open attempts per cache directory, no opendir/readdir outside maintenance, peak descriptors+streams attributable to the call <= 2 (<= 3 with a checker), residual descriptors = 1 iff a handle is returned else 0, no lock primitive. Non-trivial = every scenario (four sizes compared); distinct = scenario signature".to_string()
    }
    fn runs(&self, tier: Tier) -> u64 {
        match tier {
            Tier::Quick => 25_000,
            Tier::Thorough => 1_000_000,
        }
    }
    fn run(&self, tape: &mut Tape, ctx: &RunCtx) -> RunOut {
        let mut out = RunOut::default();
        let mut kn = draw_knobs(tape);
        // short reads/writes are drawn independently in each of the four worlds
        // and would change the number of read/write calls: not this check's concern
        kn.short_io = 0;
        let front = tape.draw(4); // 0 plain, 1 sharded, 2 stack, 3 readonly
        let depth = if front >= 2 { 1 + tape.draw(3) as usize } else { 1 };
        let kinds: Vec<bool> = (0..depth).map(|i| if front == 0 { false } else if front == 1 { true } else { let _ = i; tape.draw(2) == 1 }).collect();
        let nshards = 2 + tape.draw(3) as usize;
        let warm_pre = tape.draw(24) == 23;
        let nshards = if warm_pre { 2 } else { nshards };
        let checker = if front >= 2 && tape.draw(2) == 1 { CheckerKind::ByteEq } else { CheckerKind::None };
        let op = *tape.pick(&if front == 3 { vec![Op20::GetHit, Op20::GetMiss, Op20::TouchHit, Op20::TouchMiss] } else { vec![Op20::GetHit, Op20::GetMiss, Op20::TouchHit, Op20::TouchMiss, Op20::Set, Op20::PutInsert, Op20::PutExisting] });
        let hit_level = tape.draw(depth as u64) as usize;
        let also_lower_copy = tape.draw(2) == 1;
        let maintain = tape.draw(4) == 3;
        let auto_sync = tape.draw(2) == 0;
        // fault dimension: the first publication attempt of a write fails, so
        // that the retry path runs on a populated directory
        let fail_first_pub = matches!(op, Op20::Set | Op20::PutInsert | Op20::PutExisting) && tape.draw(3) == 0;
        // "warm handle" dimension: the measured operation is issued through a
        // handle that has already performed several hundred writes (in-memory
        // load estimates saturated), not through a fresh one
        let warm = front != 3 && warm_pre && !maintain;
        let fail_errno = *tape.pick(&[libc::EIO, libc::ENOSPC, libc::ENOENT, libc::EXDEV, libc::EACCES]);
        let (kh, ks) = solve_key(tape, nshards, (0, 1));
        let in_secondary = tape.draw(2) == 1;
        // two racing writers can leave one copy in each candidate shard
        // (documented); the bounds hold in that state too
        let dup = tape.draw(3) == 0;
        // the process does not own the cached files: setting the access bit by
        // hand (futimens) fails with EPERM on every lookup -- the bounds hold
        let foreign = tape.draw(4) == 0;
        let key = KeySpec { name: "thekey".into(), hash: kh, sec: ks };
        let sizes: Vec<usize> = if maintain { vec![0, 10, 100] } else { SIZES.to_vec() };
        let desc = format!("front={} depth={} sharded_levels={:?} shards={} checker={:?} op={:?} hit_level={} lower_copy={} maintain={} auto_sync={} key_in_secondary={} duplicate={} foreign_owner={} {}", ["plain", "sharded", "stack", "readonly"][front as usize], depth, kinds, nshards, checker, op, hit_level, also_lower_copy, maintain, auto_sync, in_secondary, dup, foreign, kn.describe()) + &format!(" fail_first_publication={} ({}) warm_handle={}", fail_first_pub, fail_errno, warm);
        let mut observations: Vec<Obs> = Vec::new();
        let mut total_steps = 0;
        let mut total_ns = 0;
        for &size in sizes.iter() {
            let mut fs = new_fs(&kn);
            let mut dirs = Vec::new();
            for (i, sharded) in kinds.iter().enumerate() {
                let path = format!("/sim/c{}", i);
                fs.mkdir_all(&path);
                let phys: Vec<String> = if *sharded { (0..nshards).map(|s| format!("{}/{}", path, shard_dir_name(s))).collect() } else { vec![path.clone()] };
                let past = fs.now - 7_200_000_000_000;
                for p in phys.iter() {
                    fs.mkdir_all(p);
                    for j in 0..size {
                        let n = format!("pop{}", j);
                        fs.plant_file(&format!("{}/{}", p, n), b"x", 0o444, past - 120_000_000_000, past - j as i64);
                    }
                }
                let has_copy = match op {
                    Op20::GetHit | Op20::TouchHit => i == hit_level || (also_lower_copy && i > hit_level),
                    Op20::PutExisting => i == 0,
                    _ => false,
                };
                if has_copy {
                    let p = if *sharded { format!("{}/{}", path, shard_dir_name(if in_secondary { 1 } else { 0 })) } else { path.clone() };
                    fs.plant_file(&format!("{}/thekey", p), &make_value("thekey", 1, 20), 0o444, past - 120_000_000_000, past);
                    if dup && *sharded {
                        let p2 = format!("{}/{}", path, shard_dir_name(if in_secondary { 0 } else { 1 }));
                        fs.plant_file(&format!("{}/thekey", p2), &make_value("thekey", 1, 20), 0o444, past - 120_000_000_000, past + 1_000_000_000);
                    }
                }
                // capacity: huge when maintenance must not fire
                let cap = if maintain { (size + 5) * if *sharded { nshards } else { 1 } } else { 100_000_000 };
                dirs.push(DirSpec { path, kind: if *sharded { DirKind::Sharded(nshards) } else { DirKind::Plain }, capacity: cap });
            }
            let mut w = World::new(fs, &kn, tape, 1, 1, dirs, WorldCfg::default());
            w.script_trigger(0, vec![], DrawPolicy::Const(if maintain { FIRE_NOW } else { u64::MAX }));
            w.script_shard(0, vec![], DrawPolicy::Const(shard_draw(nshards, 1)));
            let spec = match front {
                0 => HandleSpec::Plain(0),
                1 => HandleSpec::Sharded(0),
                2 => HandleSpec::Stack { writer: Some(0), readers: (1..depth).collect(), auto_sync, checker },
                _ => HandleSpec::ReadOnly { readers: (0..depth).collect(), checker },
            };
            let h = w.build(&spec);
            w.enter(0);
            // the application's source file, closed before the call
            let src = format!("{}/source", SCRATCH);
            if matches!(op, Op20::Set | Op20::PutInsert | Op20::PutExisting) {
                let mut f = File::create(&src).expect("source");
                f.write_all(&make_value("thekey", 2, 20)).expect("write");
            }
            if fail_first_pub || foreign {
                let mut armed = fail_first_pub;
                w.sim.lock().injector = Some(Box::new(move |info, _t| {
                    if foreign && info.lib && info.kind == K::Futimens {
                        return Some(libc::EPERM);
                    }
                    if armed && info.lib && matches!(info.kind, K::Rename | K::Link) {
                        armed = false;
                        Some(fail_errno)
                    } else {
                        None
                    }
                }));
            }
            // a library that lists directories where it should not must show up
            // as a violation, not as an exhausted step budget
            w.sim.lock().sched.max_steps = 50_000_000;
            if warm {
                w.sim.lock().keep_trace = false;
                // 600 writes of unrelated keys through the same handle; the
                // trigger never fires (huge capacity, scripted draws)
                for i in 0..600u32 {
                    let wk = KeySpec { name: format!("warm{}", i), hash: (i as u64).wrapping_mul(0x9e3779b97f4a7c15), sec: (i as u64).wrapping_mul(0xc2b2ae3d27d4eb4f) ^ 77 };
                    let wsrc = format!("{}/warmsrc", SCRATCH);
                    {
                        let mut f = File::create(&wsrc).expect("source");
                        f.write_all(&make_value(&wk.name, i, 2)).expect("write");
                    }
                    let wp = std::path::Path::new(&wsrc);
                    let r = lib(|| match &h {
                        Handle::Plain(c) => c.put(&wk.name, wp),
                        Handle::Sharded(c) => c.put(wk.key(), wp),
                        Handle::Stack(c) => c.put(wk.key(), wp),
                        Handle::ReadOnly(_) => Ok(()),
                    });
                    if r.is_err() {
                        break;
                    }
                }
                w.sim.lock().keep_trace = true;
            }
            let base = w.sim.lock().procs[0].fds.len();
            let mark = w.trace_len();
            kismet_vfs::kernel::set_op(99);
            let mut returned: Option<File> = None;
            let r: std::io::Result<String> = lib(|| {
                let srcp = std::path::Path::new(&src);
                Ok(match (&h, op) {
                    (Handle::Plain(c), Op20::GetHit | Op20::GetMiss) => {
                        returned = c.get("thekey")?;
                        format!("hit={}", returned.is_some())
                    }
                    (Handle::Sharded(c), Op20::GetHit | Op20::GetMiss) => {
                        returned = c.get(key.key())?;
                        format!("hit={}", returned.is_some())
                    }
                    (Handle::Stack(c), Op20::GetHit | Op20::GetMiss) => {
                        returned = c.get(key.key())?;
                        format!("hit={}", returned.is_some())
                    }
                    (Handle::ReadOnly(c), Op20::GetHit | Op20::GetMiss) => {
                        returned = c.get(key.key())?;
                        format!("hit={}", returned.is_some())
                    }
                    (Handle::Plain(c), Op20::TouchHit | Op20::TouchMiss) => format!("{}", c.touch("thekey")?),
                    (Handle::Sharded(c), Op20::TouchHit | Op20::TouchMiss) => format!("{}", c.touch(key.key())?),
                    (Handle::Stack(c), Op20::TouchHit | Op20::TouchMiss) => format!("{}", c.touch(key.key())?),
                    (Handle::ReadOnly(c), Op20::TouchHit | Op20::TouchMiss) => format!("{}", c.touch(key.key())?),
                    (Handle::Plain(c), Op20::Set) => c.set("thekey", srcp).map(|_| "ok".to_string())?,
                    (Handle::Plain(c), _) => c.put("thekey", srcp).map(|_| "ok".to_string())?,
                    (Handle::Sharded(c), Op20::Set) => c.set(key.key(), srcp).map(|_| "ok".to_string())?,
                    (Handle::Sharded(c), _) => c.put(key.key(), srcp).map(|_| "ok".to_string())?,
                    (Handle::Stack(c), Op20::Set) => c.set(key.key(), srcp).map(|_| "ok".to_string())?,
                    (Handle::Stack(c), _) => c.put(key.key(), srcp).map(|_| "ok".to_string())?,
                    (Handle::ReadOnly(_), _) => "n/a".to_string(),
                })
            });
            w.sim.lock().injector = None;
            let after = w.sim.lock().procs[0].fds.len();
            let trace = w.trace_from(mark);
            let expect_hit = matches!(op, Op20::GetHit);
            let result = match &r {
                Ok(s) => s.clone(),
                Err(e) => format!("Err({})", e),
            };
            if r.is_err() && !fail_first_pub {
                out.violation = Some(Violation::new("op-error", format!("size {}: {} ({})", size, result, desc)));
            }
            if matches!(op, Op20::GetHit | Op20::GetMiss) && r.is_ok() && returned.is_some() != expect_hit {
                out.violation = Some(Violation::new("op-result", format!("size {}: expected hit={}, got {}", size, expect_hit, result)));
            }
            let mut kinds_seen: BTreeMap<K, usize> = BTreeMap::new();
            let mut peak = 0usize;
            let mut opens_per_dir = vec![0usize; depth];
            let mut listings = 0;
            let mut locks = 0;
            for rec in trace.iter() {
                *kinds_seen.entry(rec.kind).or_insert(0) += 1;
                peak = peak.max(rec.nfds.saturating_sub(base));
                if rec.kind == K::Open {
                    for i in 0..depth {
                        if rec.raw.starts_with(&format!("/sim/c{}/", i)) && !rec.raw.contains(".kismet_temp") {
                            opens_per_dir[i] += 1;
                        }
                    }
                }
                if matches!(rec.kind, K::Opendir | K::Readdir) {
                    listings += 1;
                }
                if rec.kind == K::Lock {
                    locks += 1;
                }
            }
            // reading the returned handle is the application's business
            if let Some(mut f) = returned.take() {
                let mut b = Vec::new();
                let _ = f.read_to_end(&mut b);
            }
            let final_fds = w.sim.lock().procs[0].fds.len();
            if final_fds != base && out.violation.is_none() {
                out.violation = Some(Violation::new("leak", format!("size {}: {} descriptors remain after the returned handle was dropped ({})", size, final_fds as isize - base as isize, desc)));
            }
            w.leave();
            observations.push(Obs { kinds: kinds_seen, peak, residual: after as isize - base as isize, opens_per_dir, listings, locks, result, trace: trace.iter().map(|r| r.short()).collect() });
            let fin = w.finish(tape);
            total_steps += fin.steps;
            total_ns += fin.sim_ns;
        }
        // ---------------------------------------------------------- oracle
        let mut fail = |out: &mut RunOut, class: &str, msg: String| {
            if out.violation.is_none() {
                out.violation = Some(Violation::new(class, msg));
            }
        };
        let returns_handle = matches!(op, Op20::GetHit);
        for (i, o) in observations.iter().enumerate() {
            let size = sizes[i];
            if !maintain {
                if o.kinds != observations[0].kinds {
                    fail(&mut out, "call-count", format!("call kinds differ between population {} and {}: {:?} vs {:?}", sizes[0], size, observations[0].kinds, o.kinds));
                }
                if o.listings > 0 {
                    fail(&mut out, "listing", format!("population {}: {} opendir/readdir calls although maintenance did not fire", size, o.listings));
                }
            }
            if matches!(op, Op20::GetHit | Op20::GetMiss) {
                for (d, n) in o.opens_per_dir.iter().enumerate() {
                    if *n > 2 {
                        fail(&mut out, "open-attempts", format!("population {}: {} open attempts in cache directory {} during one lookup", size, n, d));
                    }
                }
            }
            let bound = if checker != CheckerKind::None { 3 } else { 2 };
            if o.peak > bound {
                fail(&mut out, "peak-fds", format!("population {}: {} files/streams open at once (bound {})", size, o.peak, bound));
            }
            let want = if returns_handle { 1 } else { 0 };
            if o.residual != want {
                fail(&mut out, "residual-fds", format!("population {}: {} descriptors remain open after the call returned (expected {})", size, o.residual, want));
            }
            if o.locks > 0 {
                fail(&mut out, "lock", format!("population {}: {} lock calls", size, o.locks));
            }
        }
        out.nontrivial = true;
        out.sig = hash_str(&format!("{}|{}|{:?}|{:?}|{:?}|{}|{}|{}|{}|{}|{}|{}", front, depth, kinds, checker, op, hit_level, also_lower_copy, maintain, auto_sync, in_secondary, fail_first_pub, fail_errno));
        if warm {
            out.sig = mix(out.sig, 0x77a3);
            out.count("scenarios_with_warm_handle", 1);
        }
        if fail_first_pub {
            out.count("fault:first_publication_attempt", 1);
        }
        out.steps = total_steps;
        out.sim_ns = total_ns;
        out.count(if maintain { "scenarios_with_maintenance" } else { "scenarios_without_maintenance" }, 1);
        if ctx.detail || out.violation.is_some() {
            if let Some(v) = out.violation.as_mut() {
                v.detail.push(desc.clone());
                for (i, o) in observations.iter().enumerate() {
                    v.detail.push(format!("population {}: result={} kinds={:?} peak={} residual={} opens/dir={:?}", sizes[i], o.result, o.kinds, o.peak, o.residual, o.opens_per_dir));
                }
                if let Some(o) = observations.last() {
                    v.detail.extend(o.trace.iter().take(60).cloned());
                }
            }
            out.sample = Some(J::obj().set("scenario", desc).set("per_population", observations.iter().enumerate().map(|(i, o)| J::Str(format!("population {}: {} calls, peak {} fds, residual {}", sizes[i], o.kinds.values().sum::<usize>(), o.peak, o.residual))).collect::<Vec<_>>()));
        }
        out
    }
    fn assumptions(&self) -> Vec<String> {
        vec!["descriptor accounting comes from the simulated per-process descriptor table (files and directory streams)".into(), "the application closes its source file before calling set/put and drops the returned handle after reading it".into()]
    }
}
