//! C12 — shard placement is a fixed, process-independent function of the
//! key hashes.

use crate::common::*;
use crate::json::J;
use crate::runner::*;
use crate::world::*;
use kismet_vfs::kernel::{DrawPolicy, Tape, K};

pub struct C12;

fn inv_odd(m: u64) -> u64 {
    // Newton iteration for the inverse of an odd number mod 2^64
    let mut x = m;
    for _ in 0..6 {
        x = x.wrapping_mul(2u64.wrapping_sub(m.wrapping_mul(x)));
    }
    x
}

/// Smallest mixed value that reduces to shard `j` of `n`.
fn boundary(j: usize, n: usize) -> u64 {
    let n = n.max(1) as u128;
    let v = ((j as u128) << 64).div_ceil(n);
    v.min(u64::MAX as u128) as u64
}

fn draw_hash(t: &mut Tape, n: usize, mult: u64, add: u64) -> u64 {
    match t.draw(8) {
        0 => *t.pick(&[0u64, 1, 1 << 63, u64::MAX, u64::MAX - 1, 2]),
        1..=3 => {
            // pre-image of a shard boundary (or one below it)
            let nn = n.max(2);
            // (the last shards get their share: indices that need more than
            //  four hex digits exist only there)
            let j = if t.draw(3) == 0 { nn - 1 - (t.draw(3) as usize).min(nn - 1) } else { t.draw(nn as u64) as usize };
            let y = boundary(j, nn).wrapping_sub(t.draw(2));
            y.wrapping_sub(add).wrapping_mul(inv_odd(mult))
        }
        _ => t.draw_u64(),
    }
}

impl Check for C12 {
    fn id(&self) -> &'static str {
        "C12"
    }
    fn rule(&self) -> String {
        "(hash, secondary hash, n) triples: boundary constants, pre-images of shard boundaries under the documented mixers (solved through the modular inverse of the odd multiplier), pairs whose primary and secondary images coincide (fix-up incl. the wrap n-1 -> 0), and uniform values; n in 0..70 and {128,255,256,257,4096,65536,65537,65538,100000,1048577} (boundary pre-images favour the last shards, whose indices need five hex digits). Per triple: a lookup on an empty sharded directory by a fresh process (probe paths and order from the call trace), then put+set by process A whose load estimates were skewed by unrelated writes so that the entry may land in the secondary shard, then lookups by fresh processes B and C through sharded::Cache, Cache and ReadOnlyCache; every handle is opened with its own capacity argument (from below the shard count to 10^6). Oracle: independent reimplementation with literal mixer constants. Non-trivial = primary and secondary images collided, or a boundary pre-image was used, or the entry landed in the secondary shard; distinct = hash of (n, shard pair, class of hash, where it landed, reader kinds)".to_string()
    }
    fn runs(&self, tier: Tier) -> u64 {
        match tier {
            Tier::Quick => 1_000_000,
            Tier::Thorough => 40_000_000,
        }
    }
    fn run(&self, tape: &mut Tape, ctx: &RunCtx) -> RunOut {
        let mut out = RunOut::default();
        let kn = draw_knobs(tape);
        let n: usize = if tape.draw(5) == 4 { *tape.pick(&[128usize, 255, 256, 257, 4096, 65537, 0, 1, 2, 3, 65536, 65538, 100_000, 1_048_577]) } else { tape.draw(71) as usize };
        let n_eff = n.max(2);
        let hash = draw_hash(tape, n, PRIMARY_MULT, PRIMARY_ADD);
        let force_collide = tape.draw(4) == 3;
        let sec = if force_collide {
            // choose a secondary hash whose image equals the primary image
            let h1 = ref_reduce(hash.wrapping_mul(PRIMARY_MULT).wrapping_add(PRIMARY_ADD), n_eff);
            let y = boundary(h1, n_eff).wrapping_add(tape.draw(3));
            y.wrapping_sub(SECONDARY_ADD).wrapping_mul(inv_odd(SECONDARY_MULT))
        } else {
            draw_hash(tape, n, SECONDARY_MULT, SECONDARY_ADD)
        };
        let raw2 = ref_reduce(sec.wrapping_mul(SECONDARY_MULT).wrapping_add(SECONDARY_ADD), n_eff);
        let (h1, h2) = ref_shards(hash, sec, n);
        let collided = raw2 == h1;
        let key = KeySpec { name: "thekey".into(), hash, sec };
        let mut fs = new_fs(&kn);
        let root = "/sim/c0".to_string();
        fs.mkdir_all(&root);
        // Each process opens the directory with its own capacity argument --
        // placement may depend on (hash, secondary hash, n) only.  Tiny
        // capacities (below the shard count) are included; they are used only
        // when no unrelated key is written, so that nothing is evicted.
        let tiny = tape.draw(3) == 0;
        let cap_of = |t: &mut Tape| -> usize { if tiny { *t.pick(&[1usize, 2, 3, n_eff.saturating_sub(1).max(1), n_eff, 100 * n_eff]) } else { *t.pick(&[100 * n_eff, 50 * n_eff + 7, 1_000_000usize.max(200 * n_eff)]) } };
        let caps: Vec<usize> = (0..4).map(|_| cap_of(tape)).collect();
        let dirs = vec![DirSpec { path: root.clone(), kind: DirKind::Sharded(n), capacity: 100 * n_eff }];
        let mut w = World::new(fs, &kn, tape, 4, 1, dirs.clone(), WorldCfg::default());
        for p in 0..4 {
            w.script_trigger(p, vec![], DrawPolicy::Const(u64::MAX));
        }
        let d1 = format!("{}/{}", root, shard_dir_name(h1));
        let d2 = format!("{}/{}", root, shard_dir_name(h2));
        let p1 = format!("{}/{}", d1, key.name);
        let p2 = format!("{}/{}", d2, key.name);
        let mut fail = |out: &mut RunOut, class: &str, msg: String| {
            if out.violation.is_none() {
                out.violation = Some(Violation::new(class, msg));
            }
        };
        if h1 == h2 || h1 >= n_eff || h2 >= n_eff {
            fail(&mut out, "oracle-bug", format!("reference mapping produced ({}, {}) for n={}", h1, h2, n));
        }
        // (a) fresh process, empty directory: probe paths in order
        let mk = |cap: usize| Handle::Sharded(kismet_cache::sharded::Cache::new(std::path::PathBuf::from(&root), n, cap));
        let h_fresh = mk(caps[3]);
        let ha = mk(caps[0]);
        let m0 = w.trace_len();
        let r = w.op(3, 0, &h_fresh, 0, &key, &Op::Get);
        let tr = w.trace_from(m0);
        let opens: Vec<String> = tr.iter().filter(|r| r.kind == K::Open).map(|r| r.raw.clone()).collect();
        if r.out != Ok(Out::Miss) {
            fail(&mut out, "empty-lookup", format!("lookup on an empty directory: {}", r.short()));
        }
        if opens != vec![p1.clone(), p2.clone()] {
            fail(&mut out, "probe-paths", format!("n={} hash={:#x} sec={:#x}: expected probes [{}, {}], observed {:?}", n, hash, sec, p1, p2, opens));
        }
        // (b) A writes with skewed estimates
        let skew = if tiny { 0 } else { w.draw(3) };
        let mut unrelated = 0;
        if skew > 0 {
            let target = if skew == 1 { (h1, h2) } else { (h2, h1) };
            let cnt = 1 + w.draw(3);
            for i in 0..cnt {
                let (uh, us) = {
                    let mut st = w.sim.lock();
                    // an unrelated key whose *primary* is the shard to load
                    let other = if n_eff > 2 { (target.0 + 1 + (i as usize % (n_eff - 1))) % n_eff } else { target.1 };
                    let other = if other == target.0 { target.1 } else { other };
                    solve_key(&mut st.tape, n_eff, (target.0, other))
                };
                let uk = KeySpec { name: format!("unrelated{}", i), hash: uh, sec: us };
                let r = w.op(0, 0, &ha, 1, &uk, &Op::Put { tag: 100 + i as u32, plen: 0 });
                if r.out.is_err() {
                    fail(&mut out, "write-failed", r.short());
                }
                unrelated += 1;
            }
        }
        let m1 = w.trace_len();
        let r1 = w.op(0, 0, &ha, 0, &key, &Op::Put { tag: 1, plen: 0 });
        let landed_put = w.with_fs(|fs| (fs.exists(&p1), fs.exists(&p2)));
        let r2 = w.op(0, 0, &ha, 0, &key, &Op::Set { tag: 2, plen: 0 });
        let landed = w.with_fs(|fs| (fs.exists(&p1), fs.exists(&p2)));
        if r1.out.is_err() || r2.out.is_err() || r1.panic.is_some() || r2.panic.is_some() {
            fail(&mut out, "write-failed", format!("{} / {}", r1.short(), r2.short()));
        }
        if landed.0 == landed.1 {
            fail(&mut out, "placement", format!("n={} after put+set the key must live in exactly one of [{}, {}]; present: {:?}", n, d1, d2, landed));
        }
        // every path touched under the root on behalf of the key
        for rec in w.trace_from(m1).iter() {
            for p in [&rec.path, &rec.path2] {
                if p.is_empty() || !p.starts_with(&root) {
                    continue;
                }
                // calls on behalf of the key name it (maintenance of other
                // shards, which tiny capacities trigger, does not)
                if !p.ends_with("/thekey") {
                    continue;
                }
                let ok = *p == root || *p == d1 || *p == d2 || p.starts_with(&format!("{}/", d1)) || p.starts_with(&format!("{}/", d2));
                if !ok {
                    fail(&mut out, "foreign-shard", format!("n={} key shards ({},{}) but the operation touched {}: {}", n, h1, h2, p, rec.short()));
                }
            }
        }
        // any other directory under the root holding the key?
        let stray = w.with_fs(|fs| fs.tree(&root).into_iter().filter(|(p, s, _)| !s.is_dir && p.ends_with("/thekey") && *p != p1 && *p != p2).map(|(p, _, _)| p).collect::<Vec<_>>());
        if !stray.is_empty() {
            fail(&mut out, "placement", format!("key stored outside its two shards: {:?}", stray));
        }
        // shard directory names: at least four lowercase hex digits
        let names: Vec<String> = w.with_fs(|fs| fs.list(&root).into_iter().map(|(n, _)| n).collect());
        for nm in &names {
            let ok = nm.strip_prefix(".kismet_").map(|r| r.len() >= 4 && r.bytes().all(|b| b.is_ascii_digit() || (b'a'..=b'f').contains(&b))).unwrap_or(false);
            if !ok {
                fail(&mut out, "dir-name", format!("unexpected entry {} under the sharded root", nm));
            }
        }
        // (c) fresh processes B and C find A's value through any front-end
        let mut kinds = 0u64;
        for p in 1..3 {
            let kind = w.draw(3);
            kinds = kinds * 3 + kind;
            let spec = match kind {
                0 => HandleSpec::Sharded(0),
                1 => HandleSpec::Stack { writer: None, readers: vec![0], auto_sync: true, checker: CheckerKind::None },
                _ => HandleSpec::ReadOnly { readers: vec![0], checker: CheckerKind::None },
            };
            let h = if kind == 0 { mk(caps[p]) } else { w.build(&spec) };
            // B's own estimates are skewed too (only when it can write)
            if kind == 0 && !tiny && w.draw(2) == 1 {
                let (uh, us) = {
                    let mut st = w.sim.lock();
                    solve_key(&mut st.tape, n_eff, (h1, h2))
                };
                let uk = KeySpec { name: format!("noise{}", p), hash: uh, sec: us };
                let _ = w.op(p, 0, &h, 1, &uk, &Op::Put { tag: 200 + p as u32, plen: 0 });
            }
            let m = w.trace_len();
            let r = w.op(p, 0, &h, 0, &key, &Op::Get);
            match &r.out {
                Ok(Out::Hit { data, .. }) if parse_value(data) == Some(("thekey".to_string(), 2)) => {}
                _ => fail(&mut out, "not-found", format!("n={} process {} ({:?}) did not find the entry written by A (landed {:?}): {}", n, p, spec, landed, r.short())),
            }
            // whatever call the lookup probes with (open today; a stat would do)
            let opens: Vec<String> = w.trace_from(m).iter().filter(|r| matches!(r.kind, K::Open | K::Stat | K::Lstat | K::Utimens) && r.raw.ends_with("/thekey")).map(|r| r.raw.clone()).collect();
            if opens.first() != Some(&p1) {
                fail(&mut out, "probe-order", format!("n={} process {} probed {:?}; the primary candidate {} must come first", n, p, opens, p1));
            }
            let t = w.op(p, 0, &h, 0, &key, &Op::Touch);
            if t.out != Ok(Out::Bool(true)) {
                fail(&mut out, "not-found", format!("touch by process {}: {}", p, t.short()));
            }
        }
        let in_secondary = landed.1 || landed_put.1;
        if in_secondary {
            out.count("probe:landed_in_secondary", 1);
        }
        if collided {
            out.count("probe:primary_secondary_collision", 1);
            if raw2 + 1 >= n_eff {
                out.count("probe:fixup_wraps_to_zero", 1);
            }
        }
        if n < 2 {
            out.count("probe:n_below_2", 1);
        }
        out.nontrivial = collided || in_secondary || n < 2;
        out.sig = hash_str(&format!("{}|{}|{}|{}|{:?}|{}|{}", n, h1, h2, collided, landed, kinds, unrelated));
        if ctx.detail || out.violation.is_some() {
            let desc = format!("n={} hash={:#x} sec={:#x} shards=({},{}) collided={} skew={} capacities={:?} landed_put={:?} landed={:?}", n, hash, sec, h1, h2, collided, skew, caps, landed_put, landed);
            if let Some(v) = out.violation.as_mut() {
                v.detail.push(desc.clone());
                v.detail.extend(trace_tail(&w.trace_from(0), 60));
            }
            out.sample = Some(J::obj().set("scenario", desc));
        }
        let fin = w.finish(tape);
        out.steps = fin.steps;
        out.sim_ns = fin.sim_ns;
        out
    }
    fn assumptions(&self) -> Vec<String> {
        vec!["mixer constants written out as literals, derived outside Rust from SHA-256 of the two documented strings and cross-checked against the pinned test_new_keyed values".into()]
    }
}
