//! C07 — maintenance evicts exactly what Second Chance prescribes, on disk.

use crate::common::*;
use crate::json::J;
use crate::runner::*;
use crate::sc_model::{self, Entry};
use crate::world::*;
use kismet_vfs::kernel::{DrawPolicy, Tape};
use kismet_vfs::simfs::{SimFs, Ts};
use std::path::PathBuf;

pub struct C07;

#[derive(Clone, Copy, Debug, PartialEq, Eq)]
pub enum Entry07 {
    Prune,
    PlainSet,
    PlainPut,
    StackPut,
    StackSet,
    ShardedPut,
    ShardedSet,
}

pub struct Population {
    pub files: Vec<(String, Ts, Ts)>, // name, atime, mtime
    pub subdirs: Vec<String>,
}

/// Plants `n` key-named files with ranks from a small domain and a drawn
/// subset marked as read.
pub fn plant_population(fs: &mut SimFs, t: &mut Tape, dir: &str, n: usize, prefix: &str) -> Population {
    fs.mkdir_all(dir);
    let now = fs.now;
    let domain = 3 + t.draw(4) as i64; // 3..6 distinct ranks
    // spacing of ranks: sub-second, a second, or minutes
    let spacing: i64 = *t.pick(&[1_000_000_000i64, 1, 137, 1_000_000, 2_000_000_000, 60_000_000_000]);
    let mut files = Vec::new();
    for i in 0..n {
        // one run in three: the last file has a name no key can denote (leading
        // backslash) -- still a plain file of the directory, counted and evictable
        // like the others (decided from values already drawn: tapes keep their meaning)
        let odd = i + 1 == n && n >= 2 && (spacing == 137 || spacing == 1_000_000);
        let name = if odd { format!("\\{}{}", prefix, i) } else { format!("{}{}", prefix, i) };
        let rank = t.draw(domain as u64) as i64;
        let mtime = now - 600_000_000_000 - (domain - rank) * spacing;
        let marked = t.draw(2) == 1;
        let atime = if marked {
            mtime + *t.pick(&[0i64, 1, 1_000_000_000, 3_000_000_000])
        } else {
            mtime - *t.pick(&[120_000_000_000i64, 1, 1_000_000_000, 2_000_000_000])
        };
        let path = format!("{}/{}", dir, name);
        fs.plant_file(&path, &make_value(&name, 0, 5), 0o444, atime, mtime);
        files.push((name, atime, mtime));
    }
    let mut subdirs = Vec::new();
    if t.draw(2) == 1 {
        fs.mkdir_all(&format!("{}/.kismet_temp", dir));
        subdirs.push(".kismet_temp".to_string());
    }
    if t.draw(3) == 2 {
        fs.mkdir_all(&format!("{}/zsubdir", dir));
        fs.plant_file(&format!("{}/zsubdir/inner", dir), b"inner", 0o644, now - 5_000_000_000_000, now - 5_000_000_000_000);
        subdirs.push("zsubdir".to_string());
    }
    Population { files, subdirs }
}

pub fn judge_episodes(w: &World, caps: &dyn Fn(usize) -> usize, gran: i64, strict: bool) -> Result<(usize, usize, usize, usize), String> {
    let inv = w.inv.lock().unwrap();
    let (mut eps, mut ev, mut mv, mut sp) = (0, 0, 0, 0);
    for ep in inv.episodes.iter() {
        let cap = caps(ep.dir_idx);
        // The library counts every non-directory entry it lists.  Dot-files
        // are C17's business; populations here contain none.
        let after = ep.after();
        match sc_model::check_maintenance(&ep.before, &after, &ep.restamped.iter().map(|r| r.0.clone()).collect::<Vec<_>>(), cap, ep.now, gran, strict) {
            Ok(s) => {
                eps += 1;
                ev += s.evicted;
                mv += s.moved;
                if s.second_pass {
                    sp += 1;
                }
            }
            Err(e) => return Err(format!("maintenance of {} (capacity {}, {} entries) at step {}: {}", ep.dir, cap, ep.before.len(), ep.step, e)),
        }
    }
    Ok((eps, ev, mv, sp))
}

/// Concurrent mode: whatever the interleaving (peers evicting the same
/// entries, an adversary deleting files between a pass's listing and its
/// unlinks), a maintenance pass must try to delete exactly as many files as
/// ITS OWN listing exceeds the capacity by -- no fewer because a victim had
/// already vanished, no more because an entry could not be stat'ed.
fn concurrent_ride_along(tape: &mut Tape, ctx: &RunCtx) -> RunOut {
    use crate::conc::*;
    let cfg = ConcCfg {
        fronts: vec![0, 1, 2],
        capacities: vec![0, 1, 2, 3],
        max_parts: 3,
        max_ops: 4,
        max_keys: 3,
        ops: vec!["set", "put", "put", "set", "get", "touch", "ensure"],
        adversary: true,
        stale_mode: true,
        freeze: false,
        crash: false,
        fire: vec![DrawPolicy::Const(1)],
        allow_shared_handle: true,
        missing_dirs: false,
        preexisting: true,
        clock_small: true,
        sampled_faults: false,
        clock_jump: false,
        debris: true,
        focus: 4,
    };
    let run = run_conc(tape, &cfg, ctx.detail);
    let mut out = RunOut::default();
    out.sig = run.sig;
    out.steps = run.steps;
    out.sim_ns = run.sim_ns;
    out.count("concurrent_runs", 1);
    let mut v: Option<Violation> = None;
    let mut raced = 0;
    {
        let inv = run.w.inv.lock().unwrap();
        for ep in inv.episodes.iter() {
            let d = &run.w.dirs[ep.dir_idx];
            let cap = match d.kind {
                DirKind::Plain => d.capacity,
                DirKind::Sharded(n) => crate::hist::shard_capacity(d.capacity, n),
            };
            let need = ep.listed.saturating_sub(cap);
            if ep.raced {
                raced += 1;
            }
            // a pass cut short by the end of the run (killed/frozen) is not judged
            let finished = run.results.iter().any(|r| r.op_id == ep.op && !r.crashed);
            if finished && ep.unlink_attempts != need && v.is_none() {
                v = Some(Violation::new("victim-count", format!("maintenance of {} listed {} files for a capacity of {} and tried to delete {} (exactly {} are needed){}", ep.dir, ep.listed, cap, ep.unlink_attempts, need, if ep.raced { "; some entry vanished under the pass" } else { "" })));
            }
        }
    }
    if v.is_none() {
        if let Some((n, m)) = run.w.inv.lock().unwrap().violations.iter().find(|(n, _)| *n == "maintenance-path") {
            v = Some(Violation::new(n, m.clone()));
        }
    }
    out.count("episodes", run.w.inv.lock().unwrap().episodes.len() as u64);
    out.count("probe:entry_vanished_under_a_pass", raced);
    out.nontrivial = raced > 0;
    if let Some(mut v) = v {
        v.detail = describe(&run, 200);
        out.violation = Some(v);
    }
    if ctx.detail {
        out.sample = Some(J::obj().set("mode", "concurrent ride-along").set("scenario", run.desc.clone()));
    }
    out
}

impl Check for C07 {
    fn id(&self) -> &'static str {
        "C07"
    }
    fn rule(&self) -> String {
        "seeded directory populations (0..12 files, 3-6 distinct ranks so ties abound, random read marks incl. atime==mtime, stray subdirectories, seeded readdir order/batching, 5 timestamp granularities) x capacity 0..n+1 x 7 maintenance entry points (prune, plain set/put, stacked set/put, sharded set/put incl. the random other shard); one run in 64 is a concurrent run (2-3 participants, capacity 0-3, an adversary deleting files, stale crash debris) in which every maintenance pass must attempt exactly (its own listing - capacity) deletions whatever vanishes under it; one run in 16 is a random operation history (15-70 ops on plain/sharded/stacked handles of 1-2 processes) whose every maintenance episode is judged the same way; the oracle is the classical clock queue up to tie order, applied to every maintenance episode cut out of the call trace plus a before/after tree diff. Non-trivial = the directory was over capacity; distinct = hash of (entry point, n, capacity, rank pattern, mark pattern, granularity)".to_string()
    }
    fn runs(&self, tier: Tier) -> u64 {
        match tier {
            Tier::Quick => 500_000,
            Tier::Thorough => 25_000_000,
        }
    }
    fn run(&self, tape: &mut Tape, ctx: &RunCtx) -> RunOut {
        if tape.draw(64) == 63 {
            return concurrent_ride_along(tape, ctx);
        }
        if tape.draw(16) == 15 {
            // history mode: every maintenance episode of a random history
            let hp = crate::hist::HistParams { max_dirs: 2, allow_sharded: true, allow_stack: true, allow_readonly_handles: false, max_procs: 2, min_ops: 15, max_ops: 70, no_eviction: false, readonly_roots: 0, op_weights: crate::hist::OpWeights { get: 2, get_noread: 1, touch: 2, set: 4, put: 4, ensure: 1, gou: 1 }, final_prune: true };
            let rep = crate::hist::run_history(tape, &hp, ctx.detail);
            let ev = rep.nontrivial_evictions;
            let mut out = crate::hist::to_runout(rep, &["sc"], ctx.detail);
            out.nontrivial = ev > 0;
            out.count("history_mode_runs", 1);
            return out;
        }
        let mut out = RunOut::default();
        let kn = draw_knobs(tape);
        let entry = *tape.pick(&[Entry07::Prune, Entry07::PlainSet, Entry07::PlainPut, Entry07::StackPut, Entry07::StackSet, Entry07::ShardedPut, Entry07::ShardedSet]);
        let n = tape.draw(13) as usize;
        let sharded = matches!(entry, Entry07::ShardedPut | Entry07::ShardedSet);
        let cap = if sharded { 1 + tape.draw(n as u64 + 1) as usize } else { tape.draw(n as u64 + 2) as usize };
        let nshards = 2 + tape.draw(3) as usize;
        let mut fs = new_fs(&kn);
        let root = "/sim/c0".to_string();
        fs.mkdir_all(&root);
        let mut pops: Vec<(String, Population)> = Vec::new();
        let dirs;
        let key;
        let mut other_shard = 0usize;
        if sharded {
            // the new key lives in shards (a, b); the "random other shard" is
            // scripted to be `o`
            let a = tape.draw(nshards as u64) as usize;
            let mut b = tape.draw(nshards as u64) as usize;
            if b == a {
                b = (a + 1) % nshards;
            }
            let (h, s) = solve_key(tape, nshards, (a, b));
            key = KeySpec { name: "newkey".into(), hash: h, sec: s };
            other_shard = tape.draw(nshards as u64) as usize;
            let o_eff = if other_shard == a { (a + 1) % nshards } else { other_shard };
            let da = format!("{}/{}", root, shard_dir_name(a));
            let p = plant_population(&mut fs, tape, &da, n, "k");
            pops.push((da, p));
            let _ = o_eff;
            for o in 0..nshards {
                if o == a {
                    continue;
                }
                let n2 = tape.draw(9) as usize;
                let dob = format!("{}/{}", root, shard_dir_name(o));
                let p2 = plant_population(&mut fs, tape, &dob, n2, &format!("o{}x", o));
                pops.push((dob, p2));
            }
            dirs = vec![DirSpec { path: root.clone(), kind: DirKind::Sharded(nshards), capacity: cap * nshards }];
        } else {
            key = KeySpec { name: "newkey".into(), hash: 1, sec: 2 };
            let p = plant_population(&mut fs, tape, &root, n, "k");
            pops.push((root.clone(), p));
            dirs = vec![DirSpec { path: root.clone(), kind: DirKind::Plain, capacity: cap }];
        }
        let before_tree = fs.tree(&root);
        let gran = kn.gran_ns;
        let mut w = World::new(fs, &kn, tape, 1, 1, dirs, WorldCfg::default());
        w.script_trigger(0, vec![], DrawPolicy::Const(FIRE_NOW));
        if sharded {
            w.script_shard(0, vec![shard_draw(nshards, other_shard)], DrawPolicy::Const(0));
        }
        // one run in eight: a peer removes an entry under the pass -- the
        // restamp (or the stat, or the unlink) of one listed entry reports
        // ENOENT.  The pass must skip that entry and carry on; the outcome is
        // then judged by the ride-along invariants only.
        let vanish = w.draw(8) == 7;
        let vanish_at = w.draw(12);
        if vanish {
            let prefix = format!("{}/", root);
            let mut seen = 0u64;
            let mut done = false;
            w.sim.lock().injector = Some(Box::new(move |info, _t| {
                if done || !info.lib || !matches!(info.kind, kismet_vfs::kernel::K::Utimens | kismet_vfs::kernel::K::Unlink | kismet_vfs::kernel::K::FstatAt) || !info.raw.starts_with(&prefix) || info.raw.contains("/.kismet_temp") || info.raw.ends_with("/newkey") {
                    return None;
                }
                seen += 1;
                if seen > vanish_at {
                    done = true;
                    return Some(libc::ENOENT);
                }
                None
            }));
        }
        let tag = 7;
        let res: Option<OpRes> = match entry {
            Entry07::Prune => {
                w.enter(0);
                let r = lib(|| kismet_cache::raw_cache::prune(PathBuf::from(&root), cap));
                if let Err(e) = r {
                    out.violation = Some(Violation::new("prune-error", format!("prune failed: {}", e)));
                }
                None
            }
            Entry07::PlainSet | Entry07::PlainPut => {
                let h = w.build(&HandleSpec::Plain(0));
                let op = if entry == Entry07::PlainSet { Op::Set { tag, plen: 3 } } else { Op::Put { tag, plen: 3 } };
                Some(w.op(0, 0, &h, 0, &key, &op))
            }
            Entry07::StackPut | Entry07::StackSet => {
                let h = w.build(&HandleSpec::Stack { writer: Some(0), readers: vec![], auto_sync: true, checker: CheckerKind::None });
                let op = if entry == Entry07::StackSet { Op::Set { tag, plen: 3 } } else { Op::PutTemp { tag, plen: 3 } };
                Some(w.op(0, 0, &h, 0, &key, &op))
            }
            Entry07::ShardedPut | Entry07::ShardedSet => {
                let h = w.build(&HandleSpec::Sharded(0));
                let op = if entry == Entry07::ShardedSet { Op::Set { tag, plen: 3 } } else { Op::Put { tag, plen: 3 } };
                Some(w.op(0, 0, &h, 0, &key, &op))
            }
        };
        w.leave();
        let vanished = vanish && w.trace_from(0).iter().any(|r| r.injected);
        w.sim.lock().injector = None;
        if vanished {
            out.count("fault:entry_vanished_under_the_pass", 1);
            if let Some(r) = &res {
                if r.out.is_err() || r.panic.is_some() {
                    out.violation = Some(Violation::new("op-error", format!("an entry vanished under the pass and the maintaining write failed: {}", r.short())));
                }
            }
            if let Some((n, m)) = w.inv.lock().unwrap().violations.iter().find(|(n, _)| *n == "maintenance-path") {
                out.violation = Some(Violation::new(n, m.clone()));
            }
            out.nontrivial = true;
            out.sig = hash_str(&format!("vanish|{:?}|{}|{}|{}", entry, n, cap, vanish_at));
            if let Some(v) = out.violation.as_mut() {
                v.detail.push(format!("entry={:?} n={} cap={} {}", entry, n, cap, kn.describe()));
                v.detail.extend(trace_tail(&w.trace_from(0), 80));
            }
            let fin = w.finish(tape);
            out.steps = fin.steps;
            out.sim_ns = fin.sim_ns;
            return out;
        }
        if let Some(r) = &res {
            if r.out.is_err() || r.panic.is_some() {
                out.violation = Some(Violation::new("op-error", format!("maintaining write failed: {}", r.short())));
            }
        }
        // oracle 1: every maintenance episode is a legal Second Chance outcome
        let capf = |_d: usize| cap;
        let mut over_capacity = false;
        if out.violation.is_none() {
            match judge_episodes(&w, &capf, gran, kn.strict_order()) {
                Ok((eps, ev, mv, sp)) => {
                    out.count("episodes", eps as u64);
                    out.count("evictions", ev as u64);
                    out.count("reprieves", mv as u64);
                    out.count("probe:second_pass", sp as u64);
                    if eps == 0 {
                        out.violation = Some(Violation::new("no-maintenance", "the entry point performed no maintenance although the trigger fired"));
                    }
                    over_capacity = ev > 0;
                }
                Err(e) => out.violation = Some(Violation::new("second-chance", e)),
            }
        }
        // oracle 2: tree diff -- nothing but the episodes' effects and the
        // new key; directories intact
        if out.violation.is_none() {
            let after_fs = w.fs_clone();
            let inv = w.inv.lock().unwrap();
            for (path, st, data) in before_tree.iter() {
                let (pdir, name) = match kismet_vfs::kernel::split_parent(path) {
                    Some(x) => x,
                    None => continue,
                };
                let now = after_fs.stat(path);
                if st.is_dir {
                    if now.is_err() {
                        out.violation = Some(Violation::new("dir-deleted", format!("directory {} was deleted by maintenance", path)));
                    }
                    continue;
                }
                let touched_by_episode = inv.episodes.iter().any(|e| e.dir == pdir && (e.unlinked.contains(&name) || e.restamped.iter().any(|(n, _, _)| *n == name)));
                match now {
                    Err(_) => {
                        if !touched_by_episode {
                            out.violation = Some(Violation::new("stray-delete", format!("{} disappeared outside a maintenance episode", path)));
                        }
                    }
                    Ok(s2) => {
                        if !touched_by_episode && (s2.mtime != st.mtime || s2.atime != st.atime || s2.mode != st.mode || s2.ino != st.ino) {
                            out.violation = Some(Violation::new("stray-change", format!("{} changed outside a maintenance episode: {:?} -> {:?}", path, st, s2)));
                        }
                        if after_fs.read_path(path).as_deref() != data.as_ref().map(|d| d.as_slice()) {
                            out.violation = Some(Violation::new("stray-change", format!("{} content changed", path)));
                        }
                    }
                }
            }
            // every population directory must have been maintained when the
            // entry point is a maintaining write
            // the directory written to must have been maintained; a sharded
            // write additionally maintains one other shard of its choosing
            if let Some((d, _)) = pops.first() {
                if !inv.episodes.iter().any(|e| e.dir == *d) {
                    out.violation = Some(Violation::new("no-maintenance", format!("directory {} was not maintained", d)));
                }
            }
            // (which other shard, if any, is the implementation's business:
            // the statement judges the passes that do run; reach is counted)
            if sharded && pops.len() > 1 && pops[1..].iter().any(|(d, _)| inv.episodes.iter().any(|e| e.dir == *d)) {
                out.count("probe:other_shard_maintained", 1);
            }
        }
        // signature
        let mut sig = hash_str(&format!("{:?}|{}|{}|{}", entry, n, cap, gran));
        for (_, p) in pops.iter() {
            let mut ranks: Vec<Ts> = p.files.iter().map(|f| f.2).collect();
            ranks.sort();
            ranks.dedup();
            for (_, a, m) in p.files.iter() {
                let r = ranks.iter().position(|x| x == m).unwrap() as u64;
                sig = mix(sig, r * 4 + if a >= m { 1 } else { 0 } + if a == m { 2 } else { 0 });
            }
            sig = mix(sig, p.subdirs.len() as u64);
        }
        out.sig = sig;
        out.nontrivial = over_capacity;
        if ctx.detail || out.violation.is_some() {
            let desc = format!("entry={:?} n={} cap={} shards={} {}", entry, n, cap, if sharded { nshards } else { 0 }, kn.describe());
            let pop: Vec<String> = pops
                .iter()
                .flat_map(|(d, p)| {
                    let d = d.clone();
                    p.files.iter().map(move |(n, a, m)| format!("{}/{} mtime={} atime={} {}", d, n, m, a, if a >= m { "READ" } else { "unread" })).collect::<Vec<_>>()
                })
                .collect();
            if let Some(v) = out.violation.as_mut() {
                v.detail.push(desc.clone());
                v.detail.extend(pop.iter().cloned());
                v.detail.extend(trace_tail(&w.trace_from(0), 80));
            }
            out.sample = Some(J::obj().set("scenario", desc).set("population", pop).set("episodes", w.inv.lock().unwrap().episodes.iter().map(|e| format!("{}: unlinked {:?}, restamped {:?}", e.dir, e.unlinked, e.restamped.iter().map(|r| &r.0).collect::<Vec<_>>())).collect::<Vec<_>>()));
        }
        let fin = w.finish(tape);
        out.steps = fin.steps;
        out.sim_ns = fin.sim_ns;
        for (k, n) in fin.faults {
            out.count(&k, n);
        }
        out
    }
    fn assumptions(&self) -> Vec<String> {
        vec![
            "SimFs models readdir/fstatat/unlink/utimensat as Linux does (differentially tested against tmpfs/ext4 by `selftest conformance`)".into(),
            "ranks are file modification times; equal ranks may be ordered either way (the statement's 'oldest-modified first' does not order ties)".into(),
        ]
    }
}

#[allow(dead_code)]
pub fn entries_of(fs: &SimFs, dir: &str) -> Vec<Entry> {
    dir_entries(fs, dir, true)
}
