//! C17 — maintenance deletes only cache entries and stale temporary files.

use crate::checks::c07::{plant_population, Entry07};
use crate::common::*;
use crate::json::J;
use crate::runner::*;
use crate::sc_model;
use crate::world::*;
use kismet_vfs::kernel::{DrawPolicy, Tape, K};
use kismet_vfs::simfs::{SimFs, Ts};

pub struct C17;

const HOUR: i64 = 3_600_000_000_000;

struct Extra {
    path: String,
    is_dir: bool,
    /// mtime for temp files (age oracle)
    mtime: Ts,
    kind: &'static str,
}

fn plant_extras(fs: &mut SimFs, t: &mut Tape, dir: &str, extras: &mut Vec<Extra>, with_dotfiles: bool) {
    let now = fs.now;
    fs.mkdir_all(dir);
    if with_dotfiles {
        // the last name is not valid UTF-8 on disk (Latin-1 e-acute): the
        // simulated filesystem spells the stray byte 0xE9 as U+F7E9
        for name in [".gitignore", ".app_state", ".k", ".kisme", ".DS_Store", ".caf\u{F7E9}.state"] {
            if t.draw(3) == 0 {
                let m = now - (1 + t.draw(5000) as i64) * 1_000_000_000;
                let marked = t.draw(2) == 1;
                let p = format!("{}/{}", dir, name);
                fs.plant_file(&p, format!("app data {}", name).as_bytes(), 0o644, if marked { m + 1_000_000_000 } else { m - 300_000_000_000 }, m);
                extras.push(Extra { path: p, is_dir: false, mtime: m, kind: "dotfile" });
            }
        }
        if t.draw(4) == 0 {
            let p = format!("{}/.appdir", dir);
            fs.mkdir_all(&p);
            fs.plant_file(&format!("{}/state", p), b"state", 0o644, now - 9 * HOUR, now - 9 * HOUR);
            extras.push(Extra { path: p.clone(), is_dir: true, mtime: 0, kind: "dotdir" });
            extras.push(Extra { path: format!("{}/state", p), is_dir: false, mtime: 0, kind: "nested" });
        }
    }
    if t.draw(3) == 0 {
        let p = format!("{}/nested", dir);
        fs.mkdir_all(&format!("{}/deeper", p));
        fs.plant_file(&format!("{}/deeper/file", p), b"deep", 0o644, now - 30 * HOUR, now - 30 * HOUR);
        fs.plant_file(&format!("{}/file", p), b"nest", 0o444, now - 30 * HOUR - 120_000_000_000, now - 30 * HOUR);
        extras.push(Extra { path: p.clone(), is_dir: true, mtime: 0, kind: "nesteddir" });
        extras.push(Extra { path: format!("{}/deeper/file", p), is_dir: false, mtime: 0, kind: "nested" });
        extras.push(Extra { path: format!("{}/file", p), is_dir: false, mtime: 0, kind: "nested" });
    }
    // temporary directory content with ages around the limit
    let td = format!("{}/.kismet_temp", dir);
    if t.draw(5) != 0 {
        fs.mkdir_all(&td);
        let nt = t.draw(6) as usize;
        for i in 0..nt {
            let age: i64 = match t.draw(10) {
                0 => HOUR - 1,
                1 => HOUR,
                2 => HOUR + 1,
                3 => 59 * 60 * 1_000_000_000,
                4 => 61 * 60 * 1_000_000_000,
                5 => 0,
                6 => 10 * 365 * 24 * HOUR,
                7 => -5 * 60 * 1_000_000_000, // in the future
                8 => HOUR + 3 * 1_000_000_000,
                _ => (t.draw(7200) as i64) * 1_000_000_000,
            };
            let p = format!("{}/.tmpOLD{}", td, i);
            let m = now - age;
            fs.plant_file(&p, b"debris", 0o600, m, m);
            let stored = fs.stat(&p).unwrap().mtime;
            extras.push(Extra { path: p, is_dir: false, mtime: stored, kind: "temp" });
        }
        if t.draw(3) == 0 {
            // a stale scratch directory inside .kismet_temp, holding young
            // files that carry the same names as the stale files beside it
            let p = format!("{}/oldsub", td);
            fs.mkdir_all(&p);
            for i in 0..nt {
                if t.draw(2) == 0 {
                    let f = format!("{}/.tmpOLD{}", p, i);
                    let m = now - (t.draw(500) as i64) * 1_000_000_000;
                    fs.plant_file(&f, b"young scratch", 0o600, m, m);
                    extras.push(Extra { path: f, is_dir: false, mtime: 0, kind: "nested" });
                }
            }
            let ino = fs.lookup(&p).unwrap();
            fs.inode_mut(ino).mtime = now - 5 * HOUR;
            extras.push(Extra { path: p, is_dir: true, mtime: 0, kind: "tempdir" });
        }
        // a young symbolic link whose target (outside the cache) is old: the age
        // of a temporary file is the age of the entry itself, not of what it
        // points to
        if t.draw(4) == 0 {
            let target = "/sim/app/old-target".to_string();
            if fs.stat(&target).is_err() {
                fs.mkdir_all("/sim/app");
                fs.plant_file(&target, b"old data", 0o644, now - 5 * HOUR, now - 5 * HOUR);
            }
            let p = format!("{}/.tmpLINK", td);
            let m = now - 30 * 1_000_000_000;
            fs.plant_symlink(&p, &target, m);
            let stored = fs.lstat(&p).map(|s| s.mtime).unwrap_or(m);
            extras.push(Extra { path: p, is_dir: false, mtime: stored, kind: "temp" });
        }
        // a temporary directory nobody created or removed anything in for
        // hours (its own mtime is old) may still hold files that are being
        // written to: the age of a file is its own
        if t.draw(2) == 0 {
            let ino = fs.lookup(&td).unwrap();
            fs.inode_mut(ino).mtime = now - 3 * HOUR;
        }
    }
}

impl Check for C17 {
    fn id(&self) -> &'static str {
        "C17"
    }
    fn rule(&self) -> String {
        "seeded directory populations as in C07 plus dot-prefixed application files and directories beside the entries (names outside the reserved .kismet prefix), nested directories with files, and .kismet_temp content (files and a subdirectory) with ages 1h-1ns, exactly 1h, 1h+1ns, 59min, 61min, 0s, 10 years, in the future; capacity 0..n+1; plain, stacked and sharded front-ends (own shard and scripted random other shard); five granularities. Forced maintenance through set/put with the production one-hour limit. Oracle: directories survive; a temp file may be unlinked only if it is older than the limit at the moment of its unlink, and must be gone if it was already older than the limit when the call started and its directory was cleaned (robust to where the implementation reads the clock); dot-prefixed application files keep content, mode, mtime and atime; the key-named files removed and re-stamped are a legal Second Chance outcome computed over key-named files only. Non-trivial = something was deleted; distinct = hash of (entry point, n, capacity, ranks/marks, which extras, temp ages class)".to_string()
    }
    fn runs(&self, tier: Tier) -> u64 {
        match tier {
            Tier::Quick => 1_000_000,
            Tier::Thorough => 40_000_000,
        }
    }
    fn run(&self, tape: &mut Tape, ctx: &RunCtx) -> RunOut {
        let mut out = RunOut::default();
        let kn = draw_knobs(tape);
        let entry = *tape.pick(&[Entry07::PlainSet, Entry07::PlainPut, Entry07::StackPut, Entry07::ShardedPut, Entry07::ShardedSet]);
        let n = tape.draw(11) as usize;
        let sharded = matches!(entry, Entry07::ShardedPut | Entry07::ShardedSet);
        let cap = if sharded { 1 + tape.draw(n as u64 + 1) as usize } else { tape.draw(n as u64 + 2) as usize };
        let nshards = 2 + tape.draw(3) as usize;
        let with_dotfiles = tape.draw(3) != 0;
        let mut fs = new_fs(&kn);
        let root = "/sim/c0".to_string();
        fs.mkdir_all(&root);
        let mut extras: Vec<Extra> = Vec::new();
        let mut maintained_dirs: Vec<String> = Vec::new();
        let dirs;
        let key;
        let mut other_shard = 0usize;
        let mut sig = hash_str(&format!("{:?}|{}|{}|{}", entry, n, cap, kn.gran_ns));
        if sharded {
            let a = tape.draw(nshards as u64) as usize;
            let mut b = tape.draw(nshards as u64) as usize;
            if b == a {
                b = (a + 1) % nshards;
            }
            let (h, s) = solve_key(tape, nshards, (a, b));
            key = KeySpec { name: "newkey".into(), hash: h, sec: s };
            other_shard = tape.draw(nshards as u64) as usize;
            let o_eff = if other_shard == a { (a + 1) % nshards } else { other_shard };
            let da = format!("{}/{}", root, shard_dir_name(a));
            plant_population(&mut fs, tape, &da, n, "k");
            plant_extras(&mut fs, tape, &da, &mut extras, with_dotfiles);
            maintained_dirs.push(da);
            let _ = o_eff;
            for o in 0..nshards {
                if o == a {
                    continue;
                }
                let dob = format!("{}/{}", root, shard_dir_name(o));
                let n2 = tape.draw(7) as usize;
                plant_population(&mut fs, tape, &dob, n2, &format!("o{}x", o));
                plant_extras(&mut fs, tape, &dob, &mut extras, with_dotfiles);
                maintained_dirs.push(dob);
            }
            // application dot-files beside the shard directories
            if with_dotfiles && tape.draw(2) == 0 {
                let p = format!("{}/.gitignore", root);
                fs.plant_file(&p, b"*", 0o644, fs.now - HOUR * 50, fs.now - HOUR * 50);
                extras.push(Extra { path: p, is_dir: false, mtime: 0, kind: "dotfile" });
            }
            dirs = vec![DirSpec { path: root.clone(), kind: DirKind::Sharded(nshards), capacity: cap * nshards }];
        } else {
            key = KeySpec { name: "newkey".into(), hash: 1, sec: 2 };
            plant_population(&mut fs, tape, &root, n, "k");
            plant_extras(&mut fs, tape, &root, &mut extras, with_dotfiles);
            maintained_dirs.push(root.clone());
            dirs = vec![DirSpec { path: root.clone(), kind: DirKind::Plain, capacity: cap }];
        }
        let before_fs = fs.clone();
        let gran = kn.gran_ns;
        let mut w = World::new(fs, &kn, tape, 1, 1, dirs, WorldCfg::default());
        w.script_trigger(0, vec![], DrawPolicy::Const(FIRE_NOW));
        if sharded {
            w.script_shard(0, vec![shard_draw(nshards, other_shard)], DrawPolicy::Const(0));
        }
        let tag = 7;
        let (spec, op) = match entry {
            Entry07::PlainSet => (HandleSpec::Plain(0), Op::Set { tag, plen: 3 }),
            Entry07::PlainPut => (HandleSpec::Plain(0), Op::Put { tag, plen: 3 }),
            Entry07::StackPut => (HandleSpec::Stack { writer: Some(0), readers: vec![], auto_sync: true, checker: CheckerKind::None }, Op::PutTemp { tag, plen: 3 }),
            Entry07::ShardedSet => (HandleSpec::Sharded(0), Op::Set { tag, plen: 3 }),
            _ => (HandleSpec::Sharded(0), Op::Put { tag, plen: 3 }),
        };
        let h = w.build(&spec);
        let res = w.op(0, 0, &h, 0, &key, &op);
        w.leave();
        let trace = w.trace_from(0);
        let after_fs = w.fs_clone();
        let mut fail = |out: &mut RunOut, class: &str, msg: String, kind: &str| {
            if out.violation.is_none() {
                out.violation = Some(Violation::new(class, msg).attr("kind", kind));
            }
        };
        if res.out.is_err() || res.panic.is_some() {
            fail(&mut out, "op-error", format!("maintaining write failed: {}", res.short()), "op");
        }
        // when was the temp directory of each maintained directory cleaned?
        let mut deleted = 0u64;
        for ex in extras.iter() {
            let still = after_fs.lstat(&ex.path);
            let was = before_fs.lstat(&ex.path).unwrap();
            sig = mix(sig, hash_str(ex.kind));
            match ex.kind {
                "temp" => {
                    let td = kismet_vfs::kernel::split_parent(&ex.path).unwrap().0;
                    let cache_dir = kismet_vfs::kernel::split_parent(&td).unwrap().0;
                    // Was this temp directory cleaned at all?  Only required when
                    // its cache directory was maintained.
                    let cleaned = trace.iter().any(|r| r.kind == K::Opendir && r.path == td && r.err == 0);
                    let dir_maintained = trace.iter().any(|r| r.kind == K::Opendir && r.path == cache_dir && r.err == 0);
                    if !cleaned {
                        if dir_maintained {
                            fail(&mut out, "temp-not-cleaned", format!("{} was never listed although its cache directory was maintained", td), "temp");
                        }
                        continue;
                    }
                    // Robust to where the implementation reads the clock: the age
                    // threshold is taken somewhere between the start of the call
                    // and the unlink itself.
                    let start = before_fs.now;
                    let unlink_at = trace.iter().find(|r| r.kind == K::Unlink && r.path == ex.path && r.err == 0).map(|r| r.now);
                    let age_at_start = start - ex.mtime;
                    sig = mix(sig, if age_at_start > HOUR { 2 } else if age_at_start + 200_000_000_000 < HOUR { 1 } else { 3 });
                    match (still, unlink_at) {
                        (Err(_), Some(t)) => {
                            if t - ex.mtime <= HOUR {
                                fail(&mut out, "young-temp-deleted", format!("{} had age {} ns <= 1 h when it was unlinked", ex.path, t - ex.mtime), "temp");
                            } else {
                                deleted += 1;
                                out.count("probe:stale_temp_removed", 1);
                            }
                        }
                        (Err(_), None) => fail(&mut out, "young-temp-deleted", format!("{} disappeared without an unlink of its own path", ex.path), "temp"),
                        (Ok(s), _) => {
                            if age_at_start > HOUR {
                                fail(&mut out, "stale-temp-kept", format!("{} had age {} ns > 1 h when the call started, yet maintenance of its directory left it in place", ex.path, age_at_start), "temp");
                            } else if !(s == was && after_fs.read_path(&ex.path) == before_fs.read_path(&ex.path)) {
                                fail(&mut out, "young-temp-altered", format!("{} (not older than the limit) was altered: {:?} -> {:?}", ex.path, was, s), "temp");
                            } else if age_at_start + 200_000_000_000 >= HOUR {
                                out.count("probe:temp_exactly_at_limit", 1);
                            }
                        }
                    }
                }
                _ => match still {
                    Err(_) => fail(&mut out, if ex.is_dir { "dir-deleted" } else { "app-file-deleted" }, format!("{} ({}) was deleted by maintenance", ex.path, ex.kind), ex.kind),
                    Ok(s) => {
                        let same = s.ino == was.ino && s.mode == was.mode && (ex.is_dir || (s.mtime == was.mtime && s.atime == was.atime && s.size == was.size && after_fs.read_path(&ex.path) == before_fs.read_path(&ex.path)));
                        if !same {
                            fail(&mut out, "app-file-altered", format!("{} ({}) was altered by maintenance: {:?} -> {:?}", ex.path, ex.kind, was, s), ex.kind);
                        }
                    }
                },
            }
        }
        // the key-named victims: legal Second Chance outcome over key-named files
        {
            let inv = w.inv.lock().unwrap();
            for (di, d) in maintained_dirs.iter().enumerate() {
                let eps: Vec<_> = inv.episodes.iter().filter(|e| e.dir == *d).collect();
                if eps.is_empty() {
                    // the shard the key is written to must be maintained; which
                    // other shard a sharded cache also maintains is its choice
                    if di == 0 {
                        fail(&mut out, "no-maintenance", format!("{} was not maintained", d), "op");
                    }
                    continue;
                }
                for ep in eps {
                    // anything unlinked in this directory must be key-named
                    for u in ep.unlinked.iter() {
                        if u.starts_with('.') {
                            // reported above through the extras
                            continue;
                        }
                        deleted += 1;
                    }
                    let names: Vec<String> = ep.restamped.iter().map(|r| r.0.clone()).filter(|n| !n.starts_with('.')).collect();
                    if let Err(e) = sc_model::check_maintenance(&ep.before, &ep.after(), &names, cap, ep.now, gran, kn.strict_order()) {
                        let dot_present = ep.before_all.len() != ep.before.len();
                        fail(&mut out, "victims", format!("{} (capacity {}, {} key-named files, {} other files): {}", d, cap, ep.before.len(), ep.before_all.len() - ep.before.len(), e), if dot_present { "dotfile" } else { "keys" });
                    }
                }
            }
        }
        // nothing else under the root may have disappeared
        for (p, st, _) in before_fs.tree(&root) {
            if after_fs.stat(&p).is_err() {
                let loc = classify(&w.dirs, &p);
                let ok = matches!(loc, Loc::Key { .. }) || matches!(loc, Loc::Temp { .. }) && !st.is_dir;
                if !ok {
                    fail(&mut out, "stray-delete", format!("{} disappeared ({:?})", p, loc), "other");
                }
            }
        }
        out.nontrivial = deleted > 0;
        out.sig = sig;
        if ctx.detail || out.violation.is_some() {
            let desc = format!("entry={:?} n={} cap={} shards={} dotfiles={} {}", entry, n, cap, if sharded { nshards } else { 0 }, with_dotfiles, kn.describe());
            let mut lines: Vec<String> = before_fs.tree(&root).iter().map(|(p, s, _)| format!("{} {} mode={:o} mtime={} atime={}", if s.is_dir { "d" } else { "f" }, p, s.mode, s.mtime, s.atime)).collect();
            lines.insert(0, desc.clone());
            if let Some(v) = out.violation.as_mut() {
                v.detail.extend(lines.iter().cloned());
                v.detail.extend(trace_tail(&trace, 80));
            }
            out.sample = Some(J::obj().set("scenario", desc).set("tree_before", lines));
        }
        let fin = w.finish(tape);
        out.steps = fin.steps;
        out.sim_ns = fin.sim_ns;
        out
    }
    fn assumptions(&self) -> Vec<String> {
        vec!["the verification build compiles the production age limit (cfg(test) is off)".into(), "'exactly at the limit' may go either way, as may files whose age crosses the limit between the two clock readings that bracket the threshold computation".into()]
    }
}
