//! C11 — sequential histories behave like a key-value map with explainable
//! evictions.

use crate::common::*;
use crate::hist::*;
use crate::runner::*;
use crate::world::*;
use kismet_vfs::kernel::{DrawPolicy, Tape, K};

pub struct C11;

/// "A successful set or put always consumes its source file" when consuming it
/// is what goes wrong: the unlink of the source (and only that call) fails
/// with a drawn errno.  The write may fail; it may not succeed and leave the
/// source behind.
fn consume_under_fault(tape: &mut Tape, ctx: &RunCtx) -> RunOut {
    let mut out = RunOut::default();
    let kn = draw_knobs(tape);
    let mut fs = new_fs(&kn);
    let front = tape.draw(3); // plain, sharded, stack over plain/sharded
    let sharded = front == 1 || (front == 2 && tape.draw(2) == 1);
    let nshards = 2 + tape.draw(3) as usize;
    let (h, s) = solve_key(tape, nshards, (0, 1));
    let key = KeySpec { name: "thekey".into(), hash: h, sec: s };
    let root = "/sim/c0".to_string();
    fs.mkdir_all(&root);
    let present = tape.draw(2) == 1;
    if present {
        let d = if sharded { format!("{}/{}", root, shard_dir_name(tape.draw(2) as usize)) } else { root.clone() };
        fs.mkdir_all(&d);
        let past = fs.now - 3_600_000_000_000;
        fs.plant_file(&format!("{}/thekey", d), &make_value("thekey", 1, 5), 0o444, past - 120_000_000_000, past);
    }
    let dirs = vec![DirSpec { path: root.clone(), kind: if sharded { DirKind::Sharded(nshards) } else { DirKind::Plain }, capacity: 1_000_000 }];
    let is_set = tape.draw(2) == 1;
    let errno = *tape.pick(&[libc::EPERM, libc::EACCES, libc::EIO, libc::EROFS, libc::EBUSY]);
    let mut w = World::new(fs, &kn, tape, 1, 1, dirs, WorldCfg::default());
    w.script_trigger(0, vec![], DrawPolicy::Const(u64::MAX));
    let spec = match front {
        0 => HandleSpec::Plain(0),
        1 => HandleSpec::Sharded(0),
        _ => HandleSpec::Stack { writer: Some(0), readers: vec![], auto_sync: w.draw(2) == 0, checker: CheckerKind::None },
    };
    let hd = w.build(&spec);
    let fired = std::sync::Arc::new(std::sync::atomic::AtomicBool::new(false));
    let f2 = fired.clone();
    w.sim.lock().injector = Some(Box::new(move |info, _t| {
        // the unlink of anything that is not under a key name in the cache:
        // that is the staged source (application scratch or .kismet_temp)
        if info.lib && info.kind == K::Unlink && !info.raw.ends_with("/thekey") {
            f2.store(true, std::sync::atomic::Ordering::Relaxed);
            Some(errno)
        } else {
            None
        }
    }));
    let op = if is_set { Op::Set { tag: 7, plen: 3 } } else { Op::Put { tag: 7, plen: 3 } };
    let res = w.op(0, 0, &hd, 0, &key, &op);
    w.sim.lock().injector = None;
    w.leave();
    let hit = fired.load(std::sync::atomic::Ordering::Relaxed);
    out.count("consume_under_fault_runs", 1);
    if hit {
        out.count(&format!("fault:Unlink(source)/{}", errno_name(errno)), 1);
    }
    out.nontrivial = hit;
    out.sig = hash_str(&format!("consume|{}|{}|{}|{}|{}", front, sharded, present, is_set, errno));
    if let Some(p) = &res.panic {
        out.violation = Some(Violation::new("panic", format!("the unlink of the source failed with {} and the operation panicked: {}", errno_name(errno), p)));
    } else if res.out.is_ok() && res.source_left {
        out.violation = Some(Violation::new("source-not-consumed", format!("{} reported success although the unlink of its source failed with {}: the source is still there ({})", op.name(), errno_name(errno), res.short())));
    }
    if let Some(v) = out.violation.as_mut() {
        v.detail.push(format!("front={} sharded={} key_present={} [{}]", front, sharded, present, kn.describe()));
        v.detail.extend(trace_tail(&w.trace_from(0), 60));
    }
    if ctx.detail {
        out.sample = Some(crate::json::J::obj().set("mode", "source consumption under a failing unlink").set("result", res.short()));
    }
    let fin = w.finish(tape);
    out.steps = fin.steps;
    out.sim_ns = fin.sim_ns;
    out
}

impl Check for C11 {
    fn id(&self) -> &'static str {
        "C11"
    }
    fn rule(&self) -> String {
        "seeded sequential histories (20-200 ops, 2-8 keys whose hash pairs are solved to collide in / share / spread over shards) issued through 1-3 simulated processes each holding 1-3 handles (plain, sharded 2-8 shards, stacked with optional writer and 0-3 readers, read-only) on 1-3 directories with capacities from 0 to 'never'; trigger draws per process {always fire, 30% fire, never, tape} and random-shard draws from the tape. Oracle: a map per directory updated by set/put/ensure/promote/replace and by *observed* evictions, each of which must be a legal Second Chance eviction (C07 oracle) of an over-capacity directory; every lookup must equal the model; disk == model after every op; never two copies of a key in a sharded cache; sources consumed (one run in 25 checks that clause where it can go wrong: the unlink of the source fails with EPERM/EACCES/EIO/EROFS/EBUSY -- the write may fail, it may not succeed and leave the source behind). Non-trivial = at least one eviction occurred; distinct = hash of configuration and (operation, handle kind, key, outcome) sequence".to_string()
    }
    fn runs(&self, tier: Tier) -> u64 {
        match tier {
            Tier::Quick => 60_000,
            Tier::Thorough => 2_500_000,
        }
    }
    fn run(&self, tape: &mut Tape, ctx: &RunCtx) -> RunOut {
        if tape.draw(25) == 24 {
            return consume_under_fault(tape, ctx);
        }
        let long = tape.draw(8) == 7;
        let hp = HistParams {
            max_dirs: 3,
            allow_sharded: true,
            allow_stack: true,
            allow_readonly_handles: true,
            max_procs: 3,
            min_ops: 20,
            max_ops: if long { 200 } else { 60 },
            no_eviction: false,
            readonly_roots: 0,
            op_weights: OpWeights::default(),
            final_prune: true,
        };
        let rep = run_history(tape, &hp, ctx.detail);
        let ev = rep.nontrivial_evictions;
        let mut out = to_runout(rep, &["map", "content", "mode"], ctx.detail);
        out.nontrivial = ev > 0;
        out
    }
    fn assumptions(&self) -> Vec<String> {
        vec![
            "all handles on one directory are built with the same capacity and (for sharded) the same shard count".into(),
            "operations are issued one at a time (no concurrency: that is C01/C04/C05)".into(),
        ]
    }
}
