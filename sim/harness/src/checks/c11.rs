//! C11 — sequential histories behave like a key-value map with explainable
//! evictions.

use crate::hist::*;
use crate::runner::*;
use kismet_vfs::kernel::Tape;

pub struct C11;

impl Check for C11 {
    fn id(&self) -> &'static str {
        "C11"
    }
    fn rule(&self) -> String {
        "seeded sequential histories (20-200 ops, 2-8 keys whose hash pairs are solved to collide in / share / spread over shards) issued through 1-3 simulated processes each holding 1-3 handles (plain, sharded 2-8 shards, stacked with optional writer and 0-3 readers, read-only) on 1-3 directories with capacities from 0 to 'never'; trigger draws per process {always fire, 30% fire, never, tape} and random-shard draws from the tape. Oracle: a map per directory updated by set/put/ensure/promote/replace and by *observed* evictions, each of which must be a legal Second Chance eviction (C07 oracle) of an over-capacity directory; every lookup must equal the model; disk == model after every op; never two copies of a key in a sharded cache; sources consumed. Non-trivial = at least one eviction occurred; distinct = hash of configuration and (operation, handle kind, key, outcome) sequence".to_string()
    }
    fn runs(&self, tier: Tier) -> u64 {
        match tier {
            Tier::Quick => 60_000,
            Tier::Thorough => 2_500_000,
        }
    }
    fn run(&self, tape: &mut Tape, ctx: &RunCtx) -> RunOut {
        let long = tape.draw(8) == 7;
        let hp = HistParams {
            max_dirs: 3,
            allow_sharded: true,
            allow_stack: true,
            allow_readonly_handles: true,
            max_procs: 3,
            min_ops: 20,
            max_ops: if long { 200 } else { 60 },
            no_eviction: false,
            readonly_roots: 0,
            op_weights: OpWeights::default(),
            final_prune: true,
        };
        let rep = run_history(tape, &hp, ctx.detail);
        let ev = rep.nontrivial_evictions;
        let mut out = to_runout(rep, &["map", "content", "mode"], ctx.detail);
        out.nontrivial = ev > 0;
        out
    }
    fn assumptions(&self) -> Vec<String> {
        vec![
            "all handles on one directory are built with the same capacity and (for sharded) the same shard count".into(),
            "operations are issued one at a time (no concurrency: that is C01/C04/C05)".into(),
        ]
    }
}
