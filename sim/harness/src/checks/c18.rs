//! C18 — I/O failures are reported, never masked, and leave the cache
//! valid.  Single faults are enumerated: for each sampled scenario, every
//! filesystem call the library makes in the fault-free run fails once with
//! each errno that is plausible for its kind.

use crate::common::*;
use crate::json::J;
use crate::runner::*;
use crate::scen::*;
use crate::world::*;
use kismet_vfs::kernel::{Tape, K};

pub struct C18;

pub use crate::common::errnos_for;

fn judge_fault(sc: &Scenario, ex: &mut Exec, kind: K, idx: u64, errno: i32, fired: bool, failed_path: &str) -> Option<Violation> {
    let mk = |class: &str, msg: String| Some(Violation::new(class, msg).attr("op", sc.op.name()).attr("call", format!("{:?}", kind)).attr("errno", errno_name(errno)));
    ex.w.leave();
    if !fired {
        return None;
    }
    let res = &ex.res;
    let absent_errno = errno == libc::ENOENT || errno == libc::ESTALE;
    // (2) panics
    if let Some(p) = &res.panic {
        let documented = matches!(kind, K::Fsync | K::Fdatasync) && p.contains("auto_sync failed") && matches!(sc.op, Op::Set { .. } | Op::Put { .. });
        if !documented {
            return mk("panic", format!("{:?} #{} failing with {} made the operation panic: {}", kind, idx, errno_name(errno), res.short()));
        }
        return None;
    }
    // (3) validity, (6) invariants
    if let Some((c, m)) = tree_validity(sc, &ex.w).into_iter().next() {
        return mk(c, format!("after {:?} #{} failed with {}: {}", kind, idx, errno_name(errno), m));
    }
    {
        let inv = ex.w.inv.lock().unwrap();
        if let Some((n, m)) = inv.violations.iter().find(|(n, _)| matches!(*n, "content" | "mode" | "immutable" | "readonly" | "double-close")) {
            return mk(n, m.clone());
        }
    }
    // (4') nothing stays open after the call (the harness has read and dropped
    // whatever handle was returned)
    if res.fds_after > res.fds_before {
        return mk("fd-leak", format!("{} descriptor(s) of the process stayed open after {:?} #{} failed with {} ({})", res.fds_after - res.fds_before, kind, idx, errno_name(errno), res.short()));
    }
    // (4) no library temp file leaked
    let after = ex.w.fs_clone();
    for (p, st, _) in after.tree(&sc.dirs[0].path) {
        if !st.is_dir && p.contains("/.kismet_temp/") && sc.fs0.stat(&p).is_err() {
            let unlink_failed = kind == K::Unlink && failed_path == p;
            if !unlink_failed {
                return mk("temp-leak", format!("{} was left behind after {:?} #{} failed with {} ({})", p, kind, idx, errno_name(errno), res.short()));
            }
        }
    }
    // (1) success means the effect holds
    if res.out.is_ok() && sc.op.is_write() && res.source_left && !absent_errno {
        return mk("source-not-consumed", format!("{} reported success although {:?} #{} failed with {}, and its source file is still there", sc.op.name(), kind, idx, errno_name(errno)));
    }
    let (wr, rd) = on_disk(sc, &ex.w);
    let new_tag = sc.op.tag();
    if res.out.is_ok() {
        let wtags: Vec<u32> = wr.iter().map(|x| x.1).collect();
        match (&sc.op, &res.out) {
            (Op::Set { .. } | Op::SetTemp { .. }, _) => {
                // every lookup through a fresh handle must return the new value
                // ESTALE/ENOENT on the existence probe is documented as
                // absence: the probed copy then legitimately stays behind
                let probe_absent = absent_errno && matches!(kind, K::Stat | K::Lstat);
                if wtags != vec![new_tag.unwrap()] && !(probe_absent && wtags.contains(&new_tag.unwrap())) {
                    return mk("masked-set", format!("set reported success although {:?} #{} failed with {}, but the write side now holds {:?} (a lookup will not return the new value)", kind, idx, errno_name(errno), wr.iter().map(|x| (&x.0, x.1)).collect::<Vec<_>>()));
                }
            }
            (Op::Put { .. } | Op::PutTemp { .. }, _) => {
                let ok = wtags.len() == 1 && (Some(wtags[0]) == new_tag || Some(wtags[0]) == sc.pre_writer);
                let probe_absent = absent_errno && matches!(kind, K::Stat | K::Lstat);
                if !ok && !(probe_absent && !wtags.is_empty()) {
                    return mk("masked-put", format!("put reported success although {:?} #{} failed with {}, but the write side holds {:?}", kind, idx, errno_name(errno), wr.iter().map(|x| (&x.0, x.1)).collect::<Vec<_>>()));
                }
            }
            (Op::Get, Ok(Out::Miss)) | (Op::GetNoRead, Ok(Out::Miss)) => {
                let present = sc.pre_writer.is_some() || sc.pre_reader.is_some();
                if present && !absent_errno {
                    return mk("masked-miss", format!("get reported a miss for a present key because {:?} #{} failed with {}", kind, idx, errno_name(errno)));
                }
            }
            (Op::Get, Ok(Out::Hit { data, .. })) => {
                let t = parse_value(data).map(|x| x.1);
                if t.is_none() || (t != sc.pre_writer && t != sc.pre_reader) {
                    return mk("wrong-data", format!("get returned {} after {:?} #{} failed with {}", describe_bytes(data), kind, idx, errno_name(errno)));
                }
            }
            (Op::Touch, Ok(Out::Bool(b))) => {
                let present = sc.pre_writer.is_some() || sc.pre_reader.is_some();
                if *b != present && !(absent_errno && !*b) {
                    return mk("masked-touch", format!("touch reported {} for a key whose presence is {} because {:?} #{} failed with {}", b, present, kind, idx, errno_name(errno)));
                }
            }
            (Op::Ensure { .. } | Op::GetOrUpdate { .. }, Ok(Out::Hit { data, .. })) => {
                let t = parse_value(data).map(|x| x.1);
                if t.is_none() || (t != sc.pre_writer && t != sc.pre_reader && t != new_tag) {
                    return mk("wrong-data", format!("{} returned {} after {:?} #{} failed with {}", sc.op.name(), describe_bytes(data), kind, idx, errno_name(errno)));
                }
                // the write side is consulted first: a copy that is there but could
                // not be looked up (EIO, EACCES, EMFILE...) is not an absent copy
                if !absent_errno && sc.pre_writer.is_some() && t != sc.pre_writer && !matches!(sc.op, Op::GetOrUpdate { action: Action::Replace, .. }) {
                    return mk("masked-lookup", format!("{} returned {} although the write side holds value #{:?} and {:?} #{} failed with {}", sc.op.name(), describe_bytes(data), sc.pre_writer, kind, idx, errno_name(errno)));
                }
                // a configured consistency checker is shown the populated
                // copy before a cached value is returned: a failure to get
                // the scratch file for that is not a reason to skip it
                let compares = matches!(sc.spec, HandleSpec::Stack { checker: CheckerKind::Lenient, .. }) && !matches!(sc.op, Op::GetOrUpdate { action: Action::Replace, .. });
                // (a lookup that failed with ENOENT/ESTALE is a documented miss:
                // the call then populates and publishes instead of comparing)
                if compares && t != new_tag && (!absent_errno || kind == K::OpenTmp) {
                    let shown = ex.w.log.lock().unwrap().iter().any(|e| parse_value(&e.2).map(|x| x.1) == new_tag || parse_value(&e.3).map(|x| x.1) == new_tag);
                    if !shown {
                        return mk("masked-check", format!("{} returned the cached value although {:?} #{} failed with {}, and the consistency checker was never shown the populated copy", sc.op.name(), kind, idx, errno_name(errno)));
                    }
                }
                if t == new_tag && wtags.is_empty() {
                    return mk("masked-ensure", format!("{} returned the freshly populated value although {:?} #{} failed with {}, but nothing is stored in the write side", sc.op.name(), kind, idx, errno_name(errno)));
                }
            }
            _ => {}
        }
    }
    let _ = rd;
    if wr.len() > 1 && absent_errno && matches!(kind, K::Stat | K::Lstat) {
        // two copies after an existence probe that reported absence: the
        // documented treatment of ESTALE/ENOENT; nothing more to ask
        return None;
    }
    // (5) re-issuing once the fault is gone succeeds, with normal semantics
    let mut dirs = sc.dirs.clone();
    dirs[0].capacity = 100_000_000;
    let log: CheckerLog = Default::default();
    let h = build_handle(&sc.spec, &dirs, &log);
    let r2 = ex.w.op(1, 0, &h, 0, &sc.key, &sc.op);
    if r2.out.is_err() || r2.panic.is_some() {
        return mk("retry-failed", format!("after {:?} #{} failed with {}, re-issuing the operation without any fault failed: {}", kind, idx, errno_name(errno), r2.short()));
    }
    if let Some((c, m)) = battery(sc, &mut ex.w, 2).into_iter().next() {
        return mk(c, format!("after {:?} #{} failed with {}: {}", kind, idx, errno_name(errno), m));
    }
    ex.w.leave();
    if let Some((c, m)) = tree_validity(sc, &ex.w).into_iter().next() {
        return mk(c, format!("after the follow-up operations: {}", m));
    }
    None
}

impl Check for C18 {
    fn id(&self) -> &'static str {
        "C18"
    }
    fn level(&self) -> &'static str {
        "fault_enumeration"
    }
    fn rule(&self) -> String {
        "scenarios as in C02 (front-end x pre-state x operation x value size x auto_sync), sampled by seed; per scenario the operation is run fault-free, then once per (filesystem call issued inside the library call, errno plausible for that call kind: EIO, EACCES, EMFILE, ENFILE, ENOMEM, ESTALE, ENOSPC, EDQUOT, EINTR, EPERM, EROFS, EXDEV, EMLINK as applicable) with exactly that call failing and the operation left to continue. Oracle: Err, or Ok with the effect achieved (after set a fresh lookup returns exactly the new value; after put the key is present; a miss / false only if the key is absent or the errno is ENOENT/ESTALE; ensure's value is stored), no panic other than the documented failed-flush one, tree valid in the C02 sense, no temp file left in .kismet_temp (unless the failing call was its unlink), the re-issued operation and a follow-up battery by fresh processes succeed. On top of the complete single-fault enumeration, up to 24 sampled pairs of failing calls per scenario are run with the same oracle (pairs involving absence errnos, fsync or the existence probe are skipped: their provisos do not compose). evaluations = scenarios; counters give faulted runs; non-trivial = at least one fault fired; distinct = scenario signature".to_string()
    }
    fn runs(&self, tier: Tier) -> u64 {
        match tier {
            Tier::Quick => 5_000,
            Tier::Thorough => 350_000,
        }
    }
    fn run(&self, tape: &mut Tape, ctx: &RunCtx) -> RunOut {
        let mut out = RunOut::default();
        let sc = draw_scenario(tape, &|_| true);
        let mut ex0 = execute(&sc, |_| {});
        ex0.w.leave();
        if ex0.res.panic.is_some() || ex0.res.out.is_err() {
            out.violation = Some(Violation::new("fault-free-failed", format!("the fault-free run failed: {} ({})", ex0.res.short(), sc.desc)));
            return out;
        }
        out.steps = ex0.w.sim.lock().step;
        let calls: Vec<(u64, K, bool, String)> = ex0.trace.iter().filter(|r| r.lib && r.proc == 0).map(|r| (r.call_index, r.kind, r.kind == K::OpenTmp || (r.kind == K::Open && r.arg & kismet_vfs::kernel::O_CREATE != 0), r.path.clone())).collect();
        let mut fired_total = 0u64;
        'outer: for (idx, kind, creating, _path) in calls.iter() {
            let mut errnos = errnos_for(*kind, *creating);
            if *kind == K::OpenTmp {
                // the scratch directory has just been removed: the anonymous
                // open fails with ENOENT, and so does the create-and-unlink
                // fallback of tempfile() in the same directory
                errnos.push(libc::ENOENT);
            }
            for errno in errnos {
                let (target, e) = (*idx, errno);
                let gone_dir = *kind == K::OpenTmp && e == libc::ENOENT;
                let mut gone: Option<String> = None;
                let fired = std::sync::Arc::new(std::sync::Mutex::new((false, String::new(), *kind)));
                let f2 = fired.clone();
                let mut ex = execute(&sc, |w| {
                    w.sim.lock().injector = Some(Box::new(move |info, _t| {
                        if info.proc == 0 && info.call_index == target {
                            let mut g = f2.lock().unwrap();
                            *g = (true, info.raw.to_string(), info.kind);
                            if gone_dir {
                                gone = Some(format!("{}/", info.raw.trim_end_matches('/')));
                            }
                            Some(e)
                        } else if info.proc == 0 && info.call_index == target + 1 && info.kind == K::Open && info.arg & kismet_vfs::kernel::O_CREATE != 0 && gone.as_deref().map(|d| info.raw.starts_with(d)).unwrap_or(false) {
                            Some(e)
                        } else {
                            None
                        }
                    }));
                });
                ex.w.sim.lock().injector = None;
                let (did, path, k2) = fired.lock().unwrap().clone();
                // canonical path of the failed call, for the unlink exemption
                let canon = ex.w.with_fs(|fs| fs.resolve(&path).map(|r| r.canon).unwrap_or(path.clone()));
                let v = judge_fault(&sc, &mut ex, k2, target, e, did, &canon);
                out.steps += ex.w.sim.lock().step;
                out.sim_ns += ex.w.sim.lock().fs.now - sc.fs0.now;
                if did {
                    fired_total += 1;
                    out.count(&format!("fault:{:?}/{}", k2, errno_name(e)), 1);
                }
                if let Some(mut v) = v {
                    v.detail.push(sc.desc.clone());
                    v.detail.push(format!("faulted run result: {}", ex.res.short()));
                    v.detail.extend(trace_tail(&ex.w.trace_from(0), 90));
                    out.violation = Some(v);
                    break 'outer;
                }
            }
        }
        // sampled double faults: two calls of the same run fail
        if out.violation.is_none() && calls.len() >= 2 {
            let pairs = 24.min(calls.len() * 2);
            for _ in 0..pairs {
                let a = &calls[tape.draw(calls.len() as u64) as usize];
                let b = &calls[tape.draw(calls.len() as u64) as usize];
                let (ea, eb) = (errnos_for(a.1, a.2), errnos_for(b.1, b.2));
                if ea.is_empty() || eb.is_empty() || a.0 == b.0 {
                    continue;
                }
                let e1 = ea[tape.draw(ea.len() as u64) as usize];
                let e2 = eb[tape.draw(eb.len() as u64) as usize];
                let (i1, i2) = (a.0, b.0);
                let fired = std::sync::Arc::new(std::sync::Mutex::new(Vec::<(u64, String, K, i32)>::new()));
                let f2 = fired.clone();
                let mut ex = execute(&sc, |w| {
                    w.sim.lock().injector = Some(Box::new(move |info, _t| {
                        if info.proc != 0 {
                            return None;
                        }
                        let e = if info.call_index == i1 {
                            Some(e1)
                        } else if info.call_index == i2 {
                            Some(e2)
                        } else {
                            None
                        };
                        if let Some(e) = e {
                            f2.lock().unwrap().push((info.call_index, info.raw.to_string(), info.kind, e));
                        }
                        e
                    }));
                });
                ex.w.sim.lock().injector = None;
                let hits = fired.lock().unwrap().clone();
                if hits.len() < 2 {
                    continue;
                }
                // judge with the clauses that do not depend on which single
                // call failed: an unlink that failed exempts its temp file
                let unlinked: Vec<String> = hits.iter().filter(|h| h.2 == K::Unlink).map(|h| ex.w.with_fs(|fs| fs.resolve(&h.1).map(|r| r.canon).unwrap_or(h.1.clone()))).collect();
                let first = &hits[0];
                let any_absent = hits.iter().any(|h| h.3 == libc::ENOENT || h.3 == libc::ESTALE);
                let any_fsync = hits.iter().any(|h| matches!(h.2, K::Fsync | K::Fdatasync));
                let v = if any_absent || any_fsync || hits.iter().any(|h| matches!(h.2, K::Stat | K::Lstat)) {
                    // provisos of the single-fault oracle (absence errnos,
                    // documented flush panic, probe) are not combined here
                    None
                } else {
                    // if one of the two failing calls was the unlink of a temp
                    // file, that file is exempt from the leak clause
                    let kind = if unlinked.is_empty() { first.2 } else { K::Unlink };
                    judge_fault(&sc, &mut ex, kind, first.0, first.3, true, unlinked.first().map(|s| s.as_str()).unwrap_or(""))
                };
                out.steps += ex.w.sim.lock().step;
                out.count("double_fault_runs", 1);
                if let Some(mut v) = v {
                    // a second failing unlink may leave a second temp file
                    if v.class == "temp-leak" && unlinked.len() > 1 {
                        continue;
                    }
                    v.class = format!("double-{}", v.class);
                    v.detail.push(sc.desc.clone());
                    v.detail.push(format!("double fault: {:?}", hits.iter().map(|h| (h.0, h.2, errno_name(h.3))).collect::<Vec<_>>()));
                    v.detail.extend(trace_tail(&ex.w.trace_from(0), 90));
                    out.violation = Some(v);
                    break;
                }
            }
        }
        out.count("faulted_runs", fired_total);
        out.count(&format!("op:{}", sc.op.name()), 1);
        out.nontrivial = fired_total > 0;
        out.sig = mix(sc.sig, calls.len() as u64);
        if ctx.detail {
            out.sample = Some(J::obj().set("scenario", sc.desc.clone()).set("library_calls_in_fault_free_run", calls.iter().map(|c| format!("#{} {:?} {}", c.0, c.1, c.3)).collect::<Vec<_>>()).set("faulted_runs", fired_total));
        }
        out
    }
    fn assumptions(&self) -> Vec<String> {
        vec![
            "a failing call has no effect on the filesystem (except close, which still releases the descriptor, as on Linux)".into(),
            "faults are injected only on calls issued inside the library call; the application's own preparation and clean-up are not faulted".into(),
            "ENOENT/ESTALE are documented as absence, so a miss or `false` caused by them is not masking".into(),
        ]
    }
}
