//! C09 — reads mark entries as used without reordering; writes enqueue fresh.

use crate::hist::*;
use crate::runner::*;
use kismet_vfs::kernel::Tape;

pub struct C09;

impl Check for C09 {
    fn id(&self) -> &'static str {
        "C09"
    }
    fn rule(&self) -> String {
        "seeded sequential histories (10-45 ops over 2-8 keys; set/put/get with and without the application reading/touch/ensure/get_or_update) on plain, sharded, stacked and read-only front-ends held by 1-2 processes, eviction out of play in 3/4 of the runs, under every drawn combination of atime policy {strict, relatime, noatime} x timestamp granularity {1ns,1us,1s,2s} x clock regime {ties, us, ms, seconds, mixed}; after every operation each entry's (mtime, atime>=mtime) is compared with the abstract queue model (read => marked, rank and content unchanged; write => newest rank in its directory, unmarked) and no other entry may change. Non-trivial = the history contains at least one read-type hit and one write; distinct = hash of configuration and the (operation, handle kind, key, outcome) sequence".to_string()
    }
    fn runs(&self, tier: Tier) -> u64 {
        match tier {
            Tier::Quick => 100_000,
            Tier::Thorough => 4_000_000,
        }
    }
    fn run(&self, tape: &mut Tape, ctx: &RunCtx) -> RunOut {
        let no_eviction = tape.draw(4) != 3;
        let hp = HistParams {
            max_dirs: 2,
            allow_sharded: true,
            allow_stack: true,
            allow_readonly_handles: true,
            max_procs: 2,
            min_ops: 10,
            max_ops: 45,
            no_eviction,
            readonly_roots: 0,
            op_weights: OpWeights { get: 4, get_noread: 3, touch: 3, set: 3, put: 4, ensure: 1, gou: 1 }, final_prune: true
        };
        let rep = run_history(tape, &hp, ctx.detail);
        let reads = rep.counters.get("op:get").copied().unwrap_or(0) + rep.counters.get("op:touch").copied().unwrap_or(0) + rep.counters.get("op:get_noread").copied().unwrap_or(0);
        let writes = rep.counters.get("op:set").copied().unwrap_or(0) + rep.counters.get("op:put").copied().unwrap_or(0);
        let mut out = to_runout(rep, &["marks"], ctx.detail);
        out.nontrivial = reads > 0 && writes > 0;
        out
    }
    fn assumptions(&self) -> Vec<String> {
        vec![
            "atime policies and timestamp truncation as modelled by SimFs (relatime: update iff atime<=mtime or atime<=ctime or older than 24h; read(2), not open(2), updates atime)".into(),
            "the simulated clock is monotone (the statement does not cover clock steps)".into(),
        ]
    }
}
