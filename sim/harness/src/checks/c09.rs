//! C09 — reads mark entries as used without reordering; writes enqueue fresh.

use crate::hist::*;
use crate::runner::*;
use kismet_vfs::kernel::Tape;

pub struct C09;

/// "put onto an existing key leaves content and queue position unchanged" when
/// the key came into existence under the putting operation's feet: 2-3
/// participants on stacked caches (read-only level pre-populated, so that
/// lookups promote) and on plain/sharded ones; no eviction, no faults.
fn concurrent_puts(tape: &mut Tape, ctx: &RunCtx) -> RunOut {
    use crate::conc::*;
    use kismet_vfs::kernel::DrawPolicy;
    let cfg = ConcCfg {
        fronts: vec![0, 1, 2, 2],
        capacities: vec![1_000_000],
        max_parts: 3,
        max_ops: 3,
        max_keys: 2,
        ops: vec!["put", "put", "ensure", "gou", "get", "set"],
        adversary: false,
        stale_mode: false,
        freeze: false,
        crash: false,
        fire: vec![DrawPolicy::Const(u64::MAX)],
        allow_shared_handle: true,
        missing_dirs: false,
        preexisting: true,
        clock_small: true,
        sampled_faults: false,
        clock_jump: false,
        debris: false,
        focus: 0,
    };
    let run = run_conc(tape, &cfg, ctx.detail);
    let mut out = RunOut::default();
    out.sig = run.sig;
    out.steps = run.steps;
    out.sim_ns = run.sim_ns;
    out.count("concurrent_runs", 1);
    // a race actually happened: some publication by link found the key there
    let eexist = run.trace.iter().filter(|t| t.kind == kismet_vfs::kernel::K::Link && t.err == libc::EEXIST).count() as u64;
    out.count("probe:link_eexist", eexist);
    out.nontrivial = eexist > 0;
    if let Some(mut v) = putlike_overwrite(&run) {
        v.detail = describe(&run, 200);
        out.violation = Some(v);
    }
    if ctx.detail {
        out.sample = Some(crate::json::J::obj().set("mode", "concurrent puts").set("scenario", run.desc.clone()));
    }
    out
}

impl Check for C09 {
    fn id(&self) -> &'static str {
        "C09"
    }
    fn rule(&self) -> String {
        "seeded sequential histories (10-45 ops over 2-8 keys; set/put/get with and without the application reading/touch/ensure/get_or_update) on plain, sharded, stacked and read-only front-ends held by 1-2 processes, eviction out of play in 3/4 of the runs, under every drawn combination of atime policy {strict, relatime, noatime} x timestamp granularity {1ns,1us,1s,2s} x clock regime {ties, us, ms, seconds, mixed}; after every operation each entry's (mtime, atime>=mtime) is compared with the abstract queue model (read => marked, rank and content unchanged; write => newest rank in its directory, unmarked) and no other entry may change; one run in 50 is a concurrent run (2-3 participants putting, ensuring, promoting and setting the same keys on plain, sharded and stacked caches, read-only level pre-populated) in which no operation with insert-if-absent semantics may replace an entry that exists at the instant it publishes. Non-trivial = the history contains at least one read-type hit and one write; distinct = hash of configuration and the (operation, handle kind, key, outcome) sequence".to_string()
    }
    fn runs(&self, tier: Tier) -> u64 {
        match tier {
            Tier::Quick => 100_000,
            Tier::Thorough => 4_000_000,
        }
    }
    fn run(&self, tape: &mut Tape, ctx: &RunCtx) -> RunOut {
        if tape.draw(50) == 49 {
            return concurrent_puts(tape, ctx);
        }
        let no_eviction = tape.draw(4) != 3;
        let hp = HistParams {
            max_dirs: 2,
            allow_sharded: true,
            allow_stack: true,
            allow_readonly_handles: true,
            max_procs: 2,
            min_ops: 10,
            max_ops: 45,
            no_eviction,
            readonly_roots: 0,
            op_weights: OpWeights { get: 4, get_noread: 3, touch: 3, set: 3, put: 4, ensure: 1, gou: 1 }, final_prune: true
        };
        let rep = run_history(tape, &hp, ctx.detail);
        let reads = rep.counters.get("op:get").copied().unwrap_or(0) + rep.counters.get("op:touch").copied().unwrap_or(0) + rep.counters.get("op:get_noread").copied().unwrap_or(0);
        let writes = rep.counters.get("op:set").copied().unwrap_or(0) + rep.counters.get("op:put").copied().unwrap_or(0);
        // (a second copy of a key that a put was issued onto means the lookup now
        // returns other content from another queue position: C09's business too)
        let mut out = to_runout(rep, &["marks", "map:duplicate"], ctx.detail);
        out.nontrivial = reads > 0 && writes > 0;
        out
    }
    fn assumptions(&self) -> Vec<String> {
        vec![
            "atime policies and timestamp truncation as modelled by SimFs (relatime: update iff atime<=mtime or atime<=ctime or older than 24h; read(2), not open(2), updates atime)".into(),
            "the simulated clock is monotone (the statement does not cover clock steps)".into(),
        ]
    }
}
