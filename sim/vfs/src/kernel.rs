//! The simulation kernel: one `Sim` per run.  Owns the SimFs, the decision
//! tape, the clock, the per-process descriptor tables, the fault injector,
//! the trace, and the baton-passing scheduler that decides which participant
//! thread performs the next filesystem call.

use crate::simfs::*;
use std::cell::RefCell;
use std::collections::BTreeMap;
use std::sync::{Arc, Condvar, Mutex, MutexGuard};

// ----------------------------------------------------------------------
// Decision tape
// ----------------------------------------------------------------------

#[derive(Clone, Debug)]
pub struct Rng64 {
    s: [u64; 4],
}

fn splitmix(x: &mut u64) -> u64 {
    *x = x.wrapping_add(0x9e3779b97f4a7c15);
    let mut z = *x;
    z = (z ^ (z >> 30)).wrapping_mul(0xbf58476d1ce4e5b9);
    z = (z ^ (z >> 27)).wrapping_mul(0x94d049bb133111eb);
    z ^ (z >> 31)
}

impl Rng64 {
    pub fn new(seed: u64) -> Rng64 {
        let mut x = seed;
        Rng64 {
            s: [
                splitmix(&mut x),
                splitmix(&mut x),
                splitmix(&mut x),
                splitmix(&mut x),
            ],
        }
    }
    pub fn next(&mut self) -> u64 {
        let r = self.s[1].wrapping_mul(5).rotate_left(7).wrapping_mul(9);
        let t = self.s[1] << 17;
        self.s[2] ^= self.s[0];
        self.s[3] ^= self.s[1];
        self.s[1] ^= self.s[2];
        self.s[0] ^= self.s[3];
        self.s[2] ^= t;
        self.s[3] = self.s[3].rotate_left(45);
        r
    }
    pub fn below(&mut self, bound: u64) -> u64 {
        if bound <= 1 {
            0
        } else {
            self.next() % bound
        }
    }
}

/// Every decision of a run is drawn from the tape.  In exploration the
/// tape is backed by a PRNG and records what it returned; in replay it
/// returns the recorded values (clamped to the bound asked for) and 0 once
/// exhausted, 0 being by convention the simplest choice everywhere.
#[derive(Clone, Debug)]
pub struct Tape {
    rng: Option<Rng64>,
    replay: Vec<u64>,
    pos: usize,
    pub rec: Vec<u64>,
}

impl Tape {
    pub fn random(seed: u64) -> Tape {
        Tape {
            rng: Some(Rng64::new(seed)),
            replay: Vec::new(),
            pos: 0,
            rec: Vec::new(),
        }
    }
    pub fn replay(values: Vec<u64>) -> Tape {
        Tape {
            rng: None,
            replay: values,
            pos: 0,
            rec: Vec::new(),
        }
    }
    /// Returns a value in `[0, bound)`; `bound == 0` is treated as 1.
    pub fn draw(&mut self, bound: u64) -> u64 {
        let bound = bound.max(1);
        let v = match &mut self.rng {
            Some(r) => r.below(bound),
            None => {
                let v = self.replay.get(self.pos).copied().unwrap_or(0);
                self.pos += 1;
                v.min(bound - 1)
            }
        };
        self.rec.push(v);
        v
    }
    /// Full-width draw.
    pub fn draw_u64(&mut self) -> u64 {
        let v = match &mut self.rng {
            Some(r) => r.next(),
            None => {
                let v = self.replay.get(self.pos).copied().unwrap_or(0);
                self.pos += 1;
                v
            }
        };
        self.rec.push(v);
        v
    }
    pub fn chance(&mut self, permille: u64) -> bool {
        // 0 (the default) must mean "no".
        self.draw(1000) >= 1000 - permille.min(1000)
    }
    pub fn range(&mut self, lo: u64, hi_incl: u64) -> u64 {
        lo + self.draw(hi_incl - lo + 1)
    }
    pub fn pick<'a, T>(&mut self, xs: &'a [T]) -> &'a T {
        &xs[self.draw(xs.len() as u64) as usize]
    }
}

// ----------------------------------------------------------------------
// Trace
// ----------------------------------------------------------------------

#[derive(Clone, Copy, Debug, PartialEq, Eq, PartialOrd, Ord, Hash)]
pub enum K {
    Open,
    OpenTmp,
    Read,
    Write,
    Seek,
    Truncate,
    Fsync,
    Fdatasync,
    Close,
    Stat,
    Lstat,
    Fstat,
    FstatAt,
    Chmod,
    Fchmod,
    Utimens,
    Futimens,
    Rename,
    Link,
    Unlink,
    Rmdir,
    Mkdir,
    Opendir,
    Readdir,
    Closedir,
    Lock,
}

pub const O_READ: u64 = 1;
pub const O_WRITE: u64 = 2;
pub const O_APPEND: u64 = 4;
pub const O_CREATE: u64 = 8;
pub const O_EXCL: u64 = 16;
pub const O_TRUNC: u64 = 32;
pub const O_TMPFILE: u64 = 64;

#[derive(Clone, Debug)]
pub struct Rec {
    pub step: u64,
    pub part: i32,
    pub proc: usize,
    pub op: u32,
    pub kind: K,
    /// Canonical path (when it resolves) of the first path argument.
    pub path: String,
    /// The path exactly as the caller gave it.
    pub raw: String,
    pub path2: String,
    pub raw2: String,
    pub fd: i32,
    /// Inode acted upon (0 if none).
    pub ino: Ino,
    /// Second inode: replaced inode for rename.
    pub ino2: Ino,
    /// Flags (open), mode (chmod/mkdir), length (read/write/truncate).
    pub arg: u64,
    pub atime: Ts,
    pub mtime: Ts,
    /// Return value on success (fd, bytes, ino...).
    pub ret: i64,
    /// errno, 0 on success.
    pub err: Errno,
    pub injected: bool,
    pub now: Ts,
    /// Open descriptors (files + dir streams) of the process after the call.
    pub nfds: usize,
    /// Times of the target inode before a utimens/futimens call.
    pub prev_atime: Ts,
    pub prev_mtime: Ts,
    /// The call was issued while the thread was inside a library call
    /// (as opposed to the application's own preparation or clean-up).
    pub lib: bool,
    /// Index of this call among its process's calls (0-based).
    pub call_index: u64,
}

impl Rec {
    pub fn ok(&self) -> bool {
        self.err == 0
    }
    pub fn short(&self) -> String {
        let mut s = format!("#{} p{}/{} op{} {:?}", self.step, self.part, self.proc, self.op, self.kind);
        if !self.raw.is_empty() {
            s.push_str(&format!(" {}", self.raw));
        }
        if !self.raw2.is_empty() {
            s.push_str(&format!(" -> {}", self.raw2));
        }
        if self.fd >= 0 {
            s.push_str(&format!(" fd={}", self.fd));
        }
        if self.ino != 0 {
            s.push_str(&format!(" ino={}", self.ino));
        }
        match self.kind {
            K::Open | K::OpenTmp => s.push_str(&format!(" flags={:#x}", self.arg)),
            K::Chmod | K::Fchmod | K::Mkdir => s.push_str(&format!(" mode={:o}", self.arg)),
            K::Read | K::Write | K::Truncate => s.push_str(&format!(" len={}", self.arg)),
            K::Utimens | K::Futimens => s.push_str(&format!(" a={} m={}", fmt_ts(self.atime), fmt_ts(self.mtime))),
            _ => {}
        }
        if self.err != 0 {
            s.push_str(&format!(" => errno {}{}", self.err, if self.injected { " (injected)" } else { "" }));
        } else {
            s.push_str(&format!(" => {}", self.ret));
        }
        s
    }
}

pub fn fmt_ts(t: Ts) -> String {
    match t {
        UTIME_OMIT => "OMIT".to_string(),
        UTIME_NOW => "NOW".to_string(),
        t => format!("{}.{:09}", t.div_euclid(1_000_000_000), t.rem_euclid(1_000_000_000)),
    }
}

// ----------------------------------------------------------------------
// Processes, descriptors
// ----------------------------------------------------------------------

#[derive(Clone, Debug)]
pub struct FdEntry {
    pub ino: Ino,
    pub off: u64,
    pub read: bool,
    pub write: bool,
    pub append: bool,
    pub is_dir: bool,
    pub cursor: u64,
    pub path: String,
}

/// Policy for draws of the library's random source once the script is
/// exhausted.
#[derive(Clone, Copy, Debug, Default, PartialEq, Eq)]
pub enum DrawPolicy {
    /// full-width draw from the decision tape
    #[default]
    Tape,
    Const(u64),
    /// 1 ("fire now") with the given permille, else u64::MAX
    FireMix(u64),
}

#[derive(Clone, Debug, Default)]
pub struct Proc {
    pub fds: BTreeMap<i32, FdEntry>,
    pub umask: u32,
    pub dead: bool,
    /// Number of filesystem calls performed so far.
    pub calls: u64,
    /// Scripted draws for the trigger countdown (front first).
    pub trigger_script: Vec<u64>,
    /// Scripted draws for the random shard choice (front first).
    pub shard_script: Vec<u64>,
    /// What unscripted draws return.
    pub trigger_default: DrawPolicy,
    pub shard_default: DrawPolicy,
    pub rand_draws: u64,
    pub peak_fds: usize,
    pub zero_streak: u32,
    pub last_draw_call: u64,
    pub draws_since_call: u32,
}

impl Proc {
    fn alloc_fd(&mut self, e: FdEntry) -> i32 {
        let mut fd = 3;
        while self.fds.contains_key(&fd) {
            fd += 1;
        }
        self.fds.insert(fd, e);
        if self.fds.len() > self.peak_fds {
            self.peak_fds = self.fds.len();
        }
        fd
    }
}

// ----------------------------------------------------------------------
// Scheduler state
// ----------------------------------------------------------------------

#[derive(Clone, Copy, Debug, PartialEq, Eq)]
pub enum PState {
    Ready,
    Done,
}

#[derive(Clone, Debug)]
pub struct Part {
    pub proc: usize,
    pub state: PState,
    pub frozen: bool,
    pub calls: u64,
    pub dead: bool,
}

#[derive(Clone, Debug)]
pub struct SchedCfg {
    /// Draws below this (out of 1000) keep the current participant running.
    pub stay: u64,
    /// Participant held at its n-th call until all the others are done.
    pub hold: Option<(usize, u64)>,
    /// When the global step counter reaches this value, every participant
    /// but `survivor` is frozen for good.
    pub freeze_at: Option<(u64, usize)>,
    /// Kill process `proc` just before its n-th call.
    pub crash_at: Option<(usize, u64)>,
    pub max_steps: u64,
    /// "hot spot" strategy: at calls that publish, remove or re-stamp
    /// (link, rename, unlink, utimens) the running participant is preempted
    /// with this probability (permille) instead of 1000 - stay
    pub hot_switch: u64,
    /// A long stall of everybody: when the global step counter reaches the
    /// first value the clock jumps ahead by the second (nanoseconds).
    pub jump_at: Option<(u64, i64)>,
}

impl Default for SchedCfg {
    fn default() -> Self {
        SchedCfg {
            stay: 500,
            hold: None,
            freeze_at: None,
            crash_at: None,
            max_steps: 200_000,
            hot_switch: 0,
            jump_at: None,
        }
    }
}

#[derive(Clone, Copy, Debug, PartialEq, Eq)]
pub enum ClockRegime {
    /// Mostly 0 or a few ns: many equal timestamps.
    Tiny,
    Micros,
    Millis,
    /// 0.2 to 3 s per call.
    Seconds,
    Mixed,
}

pub struct InjectInfo<'a> {
    pub kind: K,
    pub proc: usize,
    pub part: i32,
    pub op: u32,
    /// Index of this call among the process's calls (0-based).
    pub call_index: u64,
    pub step: u64,
    pub raw: &'a str,
    pub raw2: &'a str,
    pub arg: u64,
    pub lib: bool,
}

pub type Injector = Box<dyn FnMut(&InjectInfo, &mut Tape) -> Option<Errno> + Send>;
pub type Observer = Box<dyn FnMut(&SimFs, &Rec) + Send>;

pub struct State {
    pub fs: SimFs,
    pub tape: Tape,
    pub trace: Vec<Rec>,
    pub keep_trace: bool,
    pub step: u64,
    pub procs: Vec<Proc>,
    pub parts: Vec<Part>,
    pub current: Option<usize>,
    pub sched: SchedCfg,
    pub clock_rng: Rng64,
    pub clock_regime: ClockRegime,
    pub injector: Option<Injector>,
    pub observer: Option<Observer>,
    /// permille of reads/writes that are cut short (legal behaviour).
    pub short_io: u64,
    /// ESTALE may replace ENOENT for names a peer removed recently.
    pub stale_mode: bool,
    recently_removed: BTreeMap<(Ino, String), u64>,
    pub tmp_counter: u64,
    pub aborted: Option<String>,
    pub switches: u64,
    pub faults_fired: BTreeMap<(K, Errno), u64>,
    pub stale_fired: u64,
    pub short_fired: u64,
    pub locks: u64,
    pub sim_start: Ts,
    progress: u64,
    quiescent: bool,
}

pub struct Sim {
    pub st: Mutex<State>,
    cvs: Vec<Condvar>,
    main_cv: Condvar,
}

/// Payload used to unwind a participant whose process was killed.
pub struct CrashSignal;

#[derive(Clone)]
pub struct Ctx {
    pub sim: Arc<Sim>,
    pub part: Option<usize>,
    pub proc: usize,
    pub op: u32,
    pub lib: bool,
}

thread_local! {
    static CTX: RefCell<Option<Ctx>> = const { RefCell::new(None) };
}

pub fn attach(sim: &Arc<Sim>, part: Option<usize>, proc: usize) {
    CTX.with(|c| {
        *c.borrow_mut() = Some(Ctx {
            sim: sim.clone(),
            part,
            proc,
            op: 0,
            lib: false,
        })
    });
}

pub fn detach() {
    CTX.with(|c| *c.borrow_mut() = None);
}

pub fn set_op(op: u32) {
    CTX.with(|c| {
        if let Some(ctx) = c.borrow_mut().as_mut() {
            ctx.op = op;
        }
    });
}

/// Marks the calling thread as being inside (or outside) a library call;
/// returns the previous value.
pub fn set_lib(v: bool) -> bool {
    CTX.with(|c| {
        if let Some(ctx) = c.borrow_mut().as_mut() {
            let old = ctx.lib;
            ctx.lib = v;
            old
        } else {
            false
        }
    })
}

pub fn set_proc(proc: usize) {
    CTX.with(|c| {
        if let Some(ctx) = c.borrow_mut().as_mut() {
            ctx.proc = proc;
        }
    });
}

pub fn current() -> Option<Ctx> {
    CTX.with(|c| c.borrow().clone())
}

pub fn attached() -> bool {
    CTX.with(|c| c.borrow().is_some())
}

/// The arguments of a call as the shim hands them to the kernel.
#[derive(Clone, Debug, Default)]
pub struct Req {
    pub raw: String,
    pub raw2: String,
    pub fd: i32,
    pub arg: u64,
    pub mode: u32,
    pub atime: Ts,
    pub mtime: Ts,
}

impl Req {
    pub fn path(p: &str) -> Req {
        Req {
            raw: p.to_string(),
            fd: -1,
            ..Default::default()
        }
    }
    pub fn fd(fd: i32) -> Req {
        Req {
            fd,
            ..Default::default()
        }
    }
}

/// What a call implementation reports back for the trace.
#[derive(Clone, Debug, Default)]
pub struct Out {
    pub ret: i64,
    pub ino: Ino,
    pub ino2: Ino,
    pub path: String,
    pub path2: String,
}

impl Sim {
    pub fn new(fs: SimFs, tape: Tape, nprocs: usize, nparts: usize) -> Arc<Sim> {
        let now = fs.now;
        let st = State {
            fs,
            tape,
            trace: Vec::new(),
            keep_trace: true,
            step: 0,
            procs: (0..nprocs)
                .map(|_| Proc {
                    umask: 0o022,
                    ..Default::default()
                })
                .collect(),
            parts: Vec::new(),
            current: None,
            sched: SchedCfg::default(),
            clock_rng: Rng64::new(0),
            clock_regime: ClockRegime::Micros,
            injector: None,
            observer: None,
            short_io: 0,
            stale_mode: false,
            recently_removed: BTreeMap::new(),
            tmp_counter: 0,
            aborted: None,
            switches: 0,
            faults_fired: BTreeMap::new(),
            stale_fired: 0,
            short_fired: 0,
            locks: 0,
            sim_start: now,
            progress: 0,
            quiescent: false,
        };
        Arc::new(Sim {
            st: Mutex::new(st),
            cvs: (0..nparts.max(1)).map(|_| Condvar::new()).collect(),
            main_cv: Condvar::new(),
        })
    }

    pub fn lock(&self) -> MutexGuard<'_, State> {
        match self.st.lock() {
            Ok(g) => g,
            Err(p) => p.into_inner(),
        }
    }

    /// Kills a process: descriptors are closed by the "kernel", anonymous
    /// inodes disappear, its participants unwind at their next call.
    pub fn kill_proc(st: &mut State, proc: usize) {
        if st.procs[proc].dead {
            return;
        }
        st.procs[proc].dead = true;
        let fds: Vec<FdEntry> = std::mem::take(&mut st.procs[proc].fds).into_values().collect();
        for e in fds {
            release_ino(&mut st.fs, e.ino);
        }
        for p in st.parts.iter_mut() {
            if p.proc == proc {
                p.dead = true;
            }
        }
    }

    // ------------------------------------------------------------------
    // Scheduling
    // ------------------------------------------------------------------

    fn runnable(st: &State, i: usize) -> bool {
        let p = &st.parts[i];
        if p.state == PState::Done {
            return false;
        }
        if p.dead {
            return true;
        }
        if p.frozen {
            return false;
        }
        if let Some((h, at)) = st.sched.hold {
            if h == i && p.calls >= at {
                // held until every other participant is done or frozen
                let others_active = st
                    .parts
                    .iter()
                    .enumerate()
                    .any(|(j, q)| j != i && q.state != PState::Done && !q.frozen);
                if others_active {
                    return false;
                }
            }
        }
        true
    }

    /// Chooses who performs the next call.  `me` is the participant at a
    /// scheduling point (None when called from the main thread or from a
    /// participant that just finished).
    fn pick(st: &mut State, me: Option<usize>, hot: bool) -> Option<usize> {
        // freeze point reached?
        if let Some((at, survivor)) = st.sched.freeze_at {
            if st.step >= at {
                for (j, p) in st.parts.iter_mut().enumerate() {
                    if j != survivor && p.state != PState::Done {
                        p.frozen = true;
                    }
                }
            }
        }
        // dead participants are drained first, in index order
        if let Some(d) = (0..st.parts.len()).find(|&i| st.parts[i].dead && st.parts[i].state != PState::Done) {
            return Some(d);
        }
        let runnable: Vec<usize> = (0..st.parts.len()).filter(|&i| Self::runnable(st, i)).collect();
        if runnable.is_empty() {
            return None;
        }
        let me_ok = me.map(|m| runnable.contains(&m)).unwrap_or(false);
        if runnable.len() == 1 {
            return Some(runnable[0]);
        }
        let d = st.tape.draw(1000);
        let stay = if hot && st.sched.hot_switch > 0 { 1000 - st.sched.hot_switch.min(1000) } else { st.sched.stay };
        if me_ok && d < stay {
            return me;
        }
        let others: Vec<usize> = runnable.iter().copied().filter(|&i| Some(i) != me).collect();
        let n = others[(d as usize) % others.len()];
        Some(n)
    }

    /// Hands the baton on and waits until it comes back.
    fn yield_point<'a>(&'a self, mut st: MutexGuard<'a, State>, me: usize, hot: bool) -> MutexGuard<'a, State> {
        st.progress += 1;
        let next = Self::pick(&mut st, Some(me), hot);
        match next {
            Some(n) if n == me => return st,
            Some(n) => {
                st.current = Some(n);
                st.switches += 1;
                self.cvs[n].notify_one();
            }
            None => {
                // nobody can run (I am frozen or held): tell the main thread
                st.current = None;
                st.quiescent = true;
                self.main_cv.notify_one();
            }
        }
        loop {
            st = match self.cvs[me].wait(st) {
                Ok(g) => g,
                Err(p) => p.into_inner(),
            };
            if st.current == Some(me) {
                return st;
            }
        }
    }

    /// Called by a participant thread before running its program.
    pub fn wait_first_turn(&self, me: usize) {
        let mut st = self.lock();
        while st.current != Some(me) {
            st = match self.cvs[me].wait(st) {
                Ok(g) => g,
                Err(p) => p.into_inner(),
            };
        }
    }

    /// Called by a participant thread when its program is over.
    pub fn finish(&self, me: usize) {
        let mut st = self.lock();
        st.parts[me].state = PState::Done;
        st.progress += 1;
        match Self::pick(&mut st, None, false) {
            Some(n) => {
                st.current = Some(n);
                self.cvs[n].notify_one();
            }
            None => {
                st.current = None;
                st.quiescent = true;
                self.main_cv.notify_one();
            }
        }
    }

    /// Runs the participants' programs to completion under the scheduler.
    /// `procs[i]` is the process participant i belongs to.  Returns false if
    /// the watchdog fired (a participant is stuck outside any filesystem
    /// call); the stuck threads are leaked in that case.
    pub fn run_participants(
        self: &Arc<Sim>,
        procs: Vec<usize>,
        programs: Vec<Box<dyn FnOnce() + Send + 'static>>,
        watchdog_ms: u64,
    ) -> bool {
        let n = programs.len();
        assert!(n <= self.cvs.len());
        {
            let mut st = self.lock();
            st.parts = procs
                .iter()
                .map(|&p| Part {
                    proc: p,
                    state: PState::Ready,
                    frozen: false,
                    calls: 0,
                    dead: false,
                })
                .collect();
            st.current = None;
            st.quiescent = false;
        }
        let mut handles = Vec::new();
        for (i, prog) in programs.into_iter().enumerate() {
            let sim = self.clone();
            let proc = procs[i];
            let h = std::thread::Builder::new()
                .stack_size(1 << 20)
                .spawn(move || {
                    attach(&sim, Some(i), proc);
                    sim.wait_first_turn(i);
                    let r = std::panic::catch_unwind(std::panic::AssertUnwindSafe(prog));
                    detach();
                    sim.finish(i);
                    if let Err(p) = r {
                        if !p.is::<CrashSignal>() {
                            // programs catch their own panics; anything
                            // else is a harness bug
                            eprintln!("participant {} panicked outside an operation", i);
                        }
                    }
                })
                .expect("spawn participant");
            handles.push(h);
        }
        // start
        {
            let mut st = self.lock();
            match Self::pick(&mut st, None, false) {
                Some(f) => {
                    st.current = Some(f);
                    self.cvs[f].notify_one();
                }
                None => {
                    st.quiescent = true;
                }
            }
        }
        // wait for the end
        let mut st = self.lock();
        let mut last_progress = st.progress;
        let mut idle_ms = 0u64;
        loop {
            let all_done = st.parts.iter().all(|p| p.state == PState::Done);
            if all_done {
                break;
            }
            if st.quiescent && st.current.is_none() {
                // only frozen/held participants remain: release them as zombies
                st.quiescent = false;
                let live: Vec<usize> = st
                    .parts
                    .iter()
                    .enumerate()
                    .filter(|(_, p)| p.state != PState::Done)
                    .map(|(i, _)| i)
                    .collect();
                let mut procs_to_kill: Vec<usize> = live.iter().map(|&i| st.parts[i].proc).collect();
                procs_to_kill.sort();
                procs_to_kill.dedup();
                // Zombies must not touch the filesystem again: mark the
                // participants dead (not the process: its descriptors and
                // files stay as they were at the freeze point).
                let _ = procs_to_kill;
                for &i in &live {
                    st.parts[i].dead = true;
                    st.parts[i].frozen = false;
                }
                if let Some(f) = Self::pick(&mut st, None, false) {
                    st.current = Some(f);
                    self.cvs[f].notify_one();
                }
                continue;
            }
            let (g, to) = match self.main_cv.wait_timeout(st, std::time::Duration::from_millis(50)) {
                Ok(x) => x,
                Err(p) => p.into_inner(),
            };
            st = g;
            if to.timed_out() {
                if st.progress == last_progress {
                    idle_ms += 50;
                    if idle_ms >= watchdog_ms {
                        st.aborted = Some("blocked".to_string());
                        drop(st);
                        // leak the threads
                        return false;
                    }
                } else {
                    last_progress = st.progress;
                    idle_ms = 0;
                }
            }
        }
        drop(st);
        for h in handles {
            let _ = h.join();
        }
        true
    }

    // ------------------------------------------------------------------
    // The system-call path
    // ------------------------------------------------------------------

    fn advance_clock(st: &mut State) {
        let r = &mut st.clock_rng;
        let inc: i64 = match st.clock_regime {
            ClockRegime::Tiny => {
                if r.below(3) == 0 {
                    0
                } else {
                    r.below(50) as i64
                }
            }
            ClockRegime::Micros => 200 + r.below(20_000) as i64,
            ClockRegime::Millis => 100_000 + r.below(40_000_000) as i64,
            ClockRegime::Seconds => 200_000_000 + r.below(2_800_000_000) as i64,
            ClockRegime::Mixed => match r.below(10) {
                0 => 0,
                1..=4 => r.below(5_000) as i64,
                5..=7 => r.below(3_000_000) as i64,
                8 => r.below(900_000_000) as i64,
                _ => 500_000_000 + r.below(2_000_000_000) as i64,
            },
        };
        st.fs.now += inc;
    }

    /// Current simulated time; reading the clock advances it a little.
    pub fn now(&self) -> Ts {
        let mut st = self.lock();
        Self::advance_clock(&mut st);
        st.fs.now
    }

    /// Performs one call.  `ctx` is the caller's context (participant and
    /// process); `exec` applies the call to the state and is only invoked
    /// if no fault is injected.
    pub fn call<R>(
        &self,
        ctx: &Ctx,
        kind: K,
        req: Req,
        sched_point: bool,
        exec: impl FnOnce(&mut State, usize, &Req) -> Result<(R, Out), Errno>,
    ) -> std::io::Result<R> {
        let mut st = self.lock();
        let proc = ctx.proc;
        let dead = |st: &State| st.procs[proc].dead || ctx.part.map(|p| st.parts.get(p).map(|x| x.dead).unwrap_or(false)).unwrap_or(false);
        if dead(&st) {
            drop(st);
            return Self::dead_call();
        }
        if let Some(me) = ctx.part {
            if sched_point {
                let hot = matches!(kind, K::Link | K::Rename | K::Unlink | K::Utimens);
                st = self.yield_point(st, me, hot);
                if dead(&st) {
                    drop(st);
                    return Self::dead_call();
                }
            }
        }
        // crash point: just before the process's n-th call
        if let Some((cp, at)) = st.sched.crash_at {
            if cp == proc && st.procs[proc].calls == at {
                Self::kill_proc(&mut st, proc);
                drop(st);
                return Self::dead_call();
            }
        }
        if st.step >= st.sched.max_steps {
            st.aborted = Some("runaway".to_string());
            for p in 0..st.procs.len() {
                Self::kill_proc(&mut st, p);
            }
            drop(st);
            return Self::dead_call();
        }
        let call_index = st.procs[proc].calls;
        st.procs[proc].calls += 1;
        if let Some(me) = ctx.part {
            st.parts[me].calls += 1;
        }
        st.step += 1;
        st.progress += 1;
        Self::advance_clock(&mut st);
        if let Some((at, ns)) = st.sched.jump_at {
            if st.step == at {
                st.fs.now += ns;
            }
        }

        // fault?
        let mut injected: Option<Errno> = None;
        if let Some(mut inj) = st.injector.take() {
            let info = InjectInfo {
                kind,
                proc,
                part: ctx.part.map(|p| p as i32).unwrap_or(-1),
                op: ctx.op,
                call_index,
                step: st.step,
                raw: &req.raw,
                raw2: &req.raw2,
                arg: req.arg,
                lib: ctx.lib,
            };
            injected = inj(&info, &mut st.tape);
            st.injector = Some(inj);
        }
        let mut rec = Rec {
            step: st.step,
            part: ctx.part.map(|p| p as i32).unwrap_or(-1),
            proc,
            op: ctx.op,
            kind,
            path: String::new(),
            raw: req.raw.clone(),
            path2: String::new(),
            raw2: req.raw2.clone(),
            fd: req.fd,
            ino: 0,
            ino2: 0,
            arg: req.arg,
            atime: req.atime,
            mtime: req.mtime,
            ret: 0,
            err: 0,
            injected: false,
            now: st.fs.now,
            nfds: 0,
            prev_atime: 0,
            prev_mtime: 0,
            lib: ctx.lib,
            call_index,
        };
        if req.fd >= 0 {
            if let Some(e) = st.procs[proc].fds.get(&req.fd) {
                rec.ino = e.ino;
                rec.path = e.path.clone();
            }
        }
        // canonical paths for the trace, computed before the call
        if !req.raw.is_empty() {
            rec.path = st.fs.resolve(&req.raw).map(|r| r.canon).unwrap_or_default();
        }
        if !req.raw2.is_empty() {
            rec.path2 = st.fs.resolve(&req.raw2).map(|r| r.canon).unwrap_or_default();
        }
        if matches!(kind, K::Utimens | K::Futimens) {
            let ino = if kind == K::Futimens { rec.ino } else { st.fs.lookup(&req.raw).unwrap_or(0) };
            if let Some(i) = st.fs.inodes.get(&ino) {
                rec.prev_atime = i.atime;
                rec.prev_mtime = i.mtime;
            }
        }
        let result: Result<R, Errno> = if let Some(e) = injected {
            *st.faults_fired.entry((kind, e)).or_insert(0) += 1;
            rec.injected = true;
            rec.err = e;
            // a failed close still releases the descriptor (Linux semantics)
            if kind == K::Close || kind == K::Closedir {
                if let Some(ent) = st.procs[proc].fds.remove(&req.fd) {
                    rec.ino = ent.ino;
                    release_ino(&mut st.fs, ent.ino);
                }
            }
            Err(e)
        } else {
            match exec(&mut st, proc, &req) {
                Ok((r, out)) => {
                    rec.ret = out.ret;
                    rec.ino = out.ino;
                    rec.ino2 = out.ino2;
                    if !out.path.is_empty() {
                        rec.path = out.path;
                    }
                    if !out.path2.is_empty() {
                        rec.path2 = out.path2;
                    }
                    Ok(r)
                }
                Err(mut e) => {
                    if e == libc::ENOENT && st.stale_mode && !req.raw.is_empty() {
                        // stale-handle mode: a name removed by someone a few
                        // steps ago may yield ESTALE instead of ENOENT
                        let key = st.fs.resolve(&req.raw).ok().map(|r| (r.parent, r.name));
                        if let Some(k) = key {
                            if let Some(&s) = st.recently_removed.get(&k) {
                                if st.step - s <= 60 && st.tape.chance(500) {
                                    e = libc::ESTALE;
                                    st.stale_fired += 1;
                                }
                            }
                        }
                    }
                    rec.err = e;
                    Err(e)
                }
            }
        };
        // bookkeeping for stale mode
        if rec.err == 0 && st.stale_mode {
            match kind {
                K::Unlink => {
                    if let Some((dir, name)) = split_parent(&rec.path) {
                        if let Ok(d) = st.fs.lookup(&dir) {
                            let step = st.step;
                            st.recently_removed.insert((d, name), step);
                        }
                    }
                }
                K::Rename => {
                    if let Some((dir, name)) = split_parent(&rec.path) {
                        if let Ok(d) = st.fs.lookup(&dir) {
                            let step = st.step;
                            st.recently_removed.insert((d, name), step);
                        }
                    }
                }
                _ => {}
            }
        }
        rec.nfds = st.procs[proc].fds.len();
        if let Some(mut obs) = st.observer.take() {
            obs(&st.fs, &rec);
            st.observer = Some(obs);
        }
        if st.keep_trace {
            st.trace.push(rec);
        }
        drop(st);
        result.map_err(std::io::Error::from_raw_os_error)
    }

    fn dead_call<R>() -> std::io::Result<R> {
        if std::thread::panicking() {
            // destructors of a killed process never reach the kernel
            Err(std::io::Error::from_raw_os_error(libc::EIO))
        } else {
            std::panic::resume_unwind(Box::new(CrashSignal));
        }
    }
}

pub fn split_parent(path: &str) -> Option<(String, String)> {
    let idx = path.rfind('/')?;
    let dir = if idx == 0 { "/".to_string() } else { path[..idx].to_string() };
    let name = path[idx + 1..].to_string();
    if name.is_empty() {
        None
    } else {
        Some((dir, name))
    }
}

pub fn release_ino(fs: &mut SimFs, ino: Ino) {
    if let Some(i) = fs.inodes.get_mut(&ino) {
        if i.opens > 0 {
            i.opens -= 1;
        }
        if i.opens == 0 && i.nlink == 0 && ino != fs.root {
            fs.inodes.remove(&ino);
        }
    }
}

// ----------------------------------------------------------------------
// Call implementations (used by the shim)
// ----------------------------------------------------------------------

fn perm_ok(fs: &SimFs, ino: Ino, read: bool, write: bool) -> bool {
    if !fs.cfg.enforce_perms {
        return true;
    }
    let m = fs.inode(ino).mode;
    (!read || m & 0o400 != 0) && (!write || m & 0o200 != 0)
}

pub fn k_open(st: &mut State, proc: usize, req: &Req) -> Result<(i32, Out), Errno> {
    let flags = req.arg;
    let mode = req.mode & !st.procs[proc].umask;
    let read = flags & O_READ != 0;
    let write = flags & (O_WRITE | O_APPEND) != 0;
    if flags & O_TMPFILE != 0 {
        let ino = st.fs.create_anon(&req.raw, mode)?;
        st.fs.inode_mut(ino).opens += 1;
        let fd = st.procs[proc].alloc_fd(FdEntry {
            ino,
            off: 0,
            read,
            write,
            append: false,
            is_dir: false,
            cursor: 0,
            path: format!("{}/<anon>", req.raw),
        });
        return Ok((fd, Out { ret: fd as i64, ino, ..Default::default() }));
    }
    if flags & O_CREATE != 0 && req.raw.ends_with('/') {
        // open(2) with O_CREAT and a trailing slash
        return Err(libc::EISDIR);
    }
    let r = if flags & O_EXCL != 0 && flags & O_CREATE != 0 { st.fs.resolve(&req.raw)? } else { st.fs.resolve_follow(&req.raw)? };
    let mut created = false;
    let ino = match r.ino {
        Some(i) => {
            if flags & O_EXCL != 0 && flags & O_CREATE != 0 {
                return Err(libc::EEXIST);
            }
            if r.must_be_dir && !st.fs.inode(i).is_dir() {
                return Err(libc::ENOTDIR);
            }
            i
        }
        None => {
            if flags & O_CREATE == 0 {
                return Err(libc::ENOENT);
            }
            if r.must_be_dir {
                // creating through a link whose target ends in a slash
                return Err(libc::EISDIR);
            }
            created = true;
            st.fs.create_file(&r.canon, mode)?
        }
    };
    let is_dir = st.fs.inode(ino).is_dir();
    if is_dir && write {
        return Err(libc::EISDIR);
    }
    if !created && !perm_ok(&st.fs, ino, read, write) {
        return Err(libc::EACCES);
    }
    if flags & O_TRUNC != 0 && write && !is_dir && !created {
        st.fs.truncate_ino(ino, 0)?;
    }
    st.fs.inode_mut(ino).opens += 1;
    let fd = st.procs[proc].alloc_fd(FdEntry {
        ino,
        off: 0,
        read,
        write,
        append: flags & O_APPEND != 0,
        is_dir,
        cursor: 0,
        path: r.canon.clone(),
    });
    Ok((fd, Out { ret: fd as i64, ino, path: r.canon, ..Default::default() }))
}

pub fn k_close(st: &mut State, proc: usize, req: &Req) -> Result<((), Out), Errno> {
    let e = st.procs[proc].fds.remove(&req.fd).ok_or(libc::EBADF)?;
    release_ino(&mut st.fs, e.ino);
    Ok(((), Out { ino: e.ino, ..Default::default() }))
}

fn fd_entry(st: &State, proc: usize, fd: i32) -> Result<FdEntry, Errno> {
    st.procs[proc].fds.get(&fd).cloned().ok_or(libc::EBADF)
}

pub fn k_read(st: &mut State, proc: usize, req: &Req) -> Result<(Vec<u8>, Out), Errno> {
    let e = fd_entry(st, proc, req.fd)?;
    if !e.read {
        return Err(libc::EBADF);
    }
    let mut len = req.arg as usize;
    if len > 1 && st.short_io > 0 && st.tape.chance(st.short_io) {
        len = 1 + st.tape.draw(len as u64 - 1) as usize;
        st.short_fired += 1;
    }
    let data = st.fs.read_ino(e.ino, e.off, len)?;
    st.procs[proc].fds.get_mut(&req.fd).unwrap().off += data.len() as u64;
    let n = data.len() as i64;
    Ok((data, Out { ret: n, ino: e.ino, ..Default::default() }))
}

pub fn k_write(st: &mut State, proc: usize, req: &Req, data: &[u8]) -> Result<(usize, Out), Errno> {
    let e = fd_entry(st, proc, req.fd)?;
    if !e.write {
        return Err(libc::EBADF);
    }
    let mut len = data.len();
    if len > 1 && st.short_io > 0 && st.tape.chance(st.short_io) {
        len = 1 + st.tape.draw(len as u64 - 1) as usize;
        st.short_fired += 1;
    }
    let off = if e.append { st.fs.inode(e.ino).size() } else { e.off };
    let n = st.fs.write_ino(e.ino, off, &data[..len])?;
    st.procs[proc].fds.get_mut(&req.fd).unwrap().off = off + n as u64;
    Ok((n, Out { ret: n as i64, ino: e.ino, ..Default::default() }))
}

pub fn k_seek(st: &mut State, proc: usize, req: &Req, whence: i32, off: i64) -> Result<(u64, Out), Errno> {
    let e = fd_entry(st, proc, req.fd)?;
    let base: i64 = match whence {
        0 => 0,
        1 => e.off as i64,
        _ => st.fs.inode(e.ino).size() as i64,
    };
    let new = base.checked_add(off).ok_or(libc::EINVAL)?;
    if new < 0 {
        return Err(libc::EINVAL);
    }
    st.procs[proc].fds.get_mut(&req.fd).unwrap().off = new as u64;
    Ok((new as u64, Out { ret: new, ino: e.ino, ..Default::default() }))
}

pub fn k_truncate(st: &mut State, proc: usize, req: &Req) -> Result<((), Out), Errno> {
    let e = fd_entry(st, proc, req.fd)?;
    if !e.write {
        return Err(libc::EINVAL);
    }
    st.fs.truncate_ino(e.ino, req.arg)?;
    Ok(((), Out { ino: e.ino, ..Default::default() }))
}

pub fn k_fsync(st: &mut State, proc: usize, req: &Req) -> Result<((), Out), Errno> {
    let e = fd_entry(st, proc, req.fd)?;
    st.fs.fsync_ino(e.ino);
    Ok(((), Out { ino: e.ino, ..Default::default() }))
}

pub fn k_stat(st: &mut State, _proc: usize, req: &Req) -> Result<(Stat, Out), Errno> {
    // req.arg == 1: lstat / fstatat(AT_SYMLINK_NOFOLLOW)
    let r = if req.arg == 1 { st.fs.resolve(&req.raw)? } else { st.fs.resolve_follow(&req.raw)? };
    let ino = r.ino.ok_or(libc::ENOENT)?;
    if r.must_be_dir && !st.fs.inode(ino).is_dir() {
        return Err(libc::ENOTDIR);
    }
    Ok((st.fs.stat_ino(ino), Out { ino, path: r.canon, ..Default::default() }))
}

pub fn k_fstat(st: &mut State, proc: usize, req: &Req) -> Result<(Stat, Out), Errno> {
    let e = fd_entry(st, proc, req.fd)?;
    Ok((st.fs.stat_ino(e.ino), Out { ino: e.ino, path: e.path, ..Default::default() }))
}

pub fn k_chmod(st: &mut State, _proc: usize, req: &Req) -> Result<((), Out), Errno> {
    let r = st.fs.resolve_follow(&req.raw)?;
    let ino = r.ino.ok_or(libc::ENOENT)?;
    if r.must_be_dir && !st.fs.inode(ino).is_dir() {
        return Err(libc::ENOTDIR);
    }
    st.fs.chmod_ino(ino, req.arg as u32);
    Ok(((), Out { ino, path: r.canon, ..Default::default() }))
}

pub fn k_fchmod(st: &mut State, proc: usize, req: &Req) -> Result<((), Out), Errno> {
    let e = fd_entry(st, proc, req.fd)?;
    st.fs.chmod_ino(e.ino, req.arg as u32);
    Ok(((), Out { ino: e.ino, path: e.path, ..Default::default() }))
}

pub fn k_utimens(st: &mut State, _proc: usize, req: &Req) -> Result<((), Out), Errno> {
    let r = st.fs.resolve_follow(&req.raw)?;
    let ino = r.ino.ok_or(libc::ENOENT)?;
    if r.must_be_dir && !st.fs.inode(ino).is_dir() {
        return Err(libc::ENOTDIR);
    }
    st.fs.utimens_ino(ino, req.atime, req.mtime);
    Ok(((), Out { ino, path: r.canon, ..Default::default() }))
}

pub fn k_futimens(st: &mut State, proc: usize, req: &Req) -> Result<((), Out), Errno> {
    let e = fd_entry(st, proc, req.fd)?;
    st.fs.utimens_ino(e.ino, req.atime, req.mtime);
    Ok(((), Out { ino: e.ino, path: e.path, ..Default::default() }))
}

pub fn k_rename(st: &mut State, _proc: usize, req: &Req) -> Result<((), Out), Errno> {
    let p1 = st.fs.resolve(&req.raw).map(|r| r.canon).unwrap_or_default();
    let p2 = st.fs.resolve(&req.raw2).map(|r| r.canon).unwrap_or_default();
    let (ino, replaced) = st.fs.rename(&req.raw, &req.raw2)?;
    Ok(((), Out { ino, ino2: replaced.unwrap_or(0), path: p1, path2: p2, ..Default::default() }))
}

pub fn k_link(st: &mut State, _proc: usize, req: &Req) -> Result<((), Out), Errno> {
    let p1 = st.fs.resolve(&req.raw).map(|r| r.canon).unwrap_or_default();
    let p2 = st.fs.resolve(&req.raw2).map(|r| r.canon).unwrap_or_default();
    let ino = st.fs.link(&req.raw, &req.raw2)?;
    Ok(((), Out { ino, path: p1, path2: p2, ..Default::default() }))
}

pub fn k_unlink(st: &mut State, _proc: usize, req: &Req) -> Result<((), Out), Errno> {
    let p1 = st.fs.resolve(&req.raw).map(|r| r.canon).unwrap_or_default();
    let ino = st.fs.unlink(&req.raw)?;
    Ok(((), Out { ino, path: p1, ..Default::default() }))
}

pub fn k_rmdir(st: &mut State, _proc: usize, req: &Req) -> Result<((), Out), Errno> {
    let p1 = st.fs.resolve(&req.raw).map(|r| r.canon).unwrap_or_default();
    st.fs.rmdir(&req.raw)?;
    Ok(((), Out { path: p1, ..Default::default() }))
}

pub fn k_mkdir(st: &mut State, proc: usize, req: &Req) -> Result<((), Out), Errno> {
    let mode = (req.arg as u32) & !st.procs[proc].umask;
    let ino = st.fs.mkdir(&req.raw, mode)?;
    let p = st.fs.dir_path(ino);
    Ok(((), Out { ino, path: p, ..Default::default() }))
}

pub fn k_opendir(st: &mut State, proc: usize, req: &Req) -> Result<(i32, Out), Errno> {
    let r = st.fs.resolve_follow(&req.raw)?;
    let ino = r.ino.ok_or(libc::ENOENT)?;
    if !st.fs.inode(ino).is_dir() {
        return Err(libc::ENOTDIR);
    }
    st.fs.inode_mut(ino).opens += 1;
    let fd = st.procs[proc].alloc_fd(FdEntry {
        ino,
        off: 0,
        read: true,
        write: false,
        append: false,
        is_dir: true,
        cursor: 0,
        path: r.canon.clone(),
    });
    Ok((fd, Out { ret: fd as i64, ino, path: r.canon, ..Default::default() }))
}

pub fn k_readdir(st: &mut State, proc: usize, req: &Req) -> Result<(Vec<(String, Ino, bool)>, Out), Errno> {
    let e = fd_entry(st, proc, req.fd)?;
    if !e.is_dir {
        return Err(libc::ENOTDIR);
    }
    let max = st.fs.cfg.readdir_batch;
    let batch = st.fs.readdir_batch(e.ino, e.cursor, max)?;
    if let Some(last) = batch.last() {
        st.procs[proc].fds.get_mut(&req.fd).unwrap().cursor = last.0;
    }
    let n = batch.len() as i64;
    Ok((
        batch.into_iter().map(|(_, n, i, d)| (n, i, d)).collect(),
        Out { ret: n, ino: e.ino, path: e.path, ..Default::default() },
    ))
}
