//! SimFs: an in-memory model of the POSIX/Linux filesystem semantics that
//! kismet-cache relies on.  Pure data structure: no scheduling, no faults,
//! no descriptor tables (those live in `kernel.rs`).  Deterministic: only
//! BTreeMaps, no hashing with random state.
//!
//! Times are i64 nanoseconds since the Unix epoch.

use std::collections::BTreeMap;
use std::sync::Arc;

pub type Ts = i64;
pub type Ino = u64;
pub type Errno = i32;

pub const NAME_MAX: usize = 255;
pub const PATH_MAX: usize = 4096;

pub const UTIME_OMIT: Ts = i64::MIN;
pub const UTIME_NOW: Ts = i64::MIN + 1;

#[derive(Clone, Copy, Debug, PartialEq, Eq)]
pub enum AtimePolicy {
    Strict,
    Relatime,
    Noatime,
}

#[derive(Clone, Debug)]
pub struct FsCfg {
    /// Timestamp granularity in ns (1, 1_000, 1_000_000_000, 2_000_000_000).
    pub gran_ns: i64,
    pub atime: AtimePolicy,
    /// Check owner permission bits on open (as for an unprivileged user).
    pub enforce_perms: bool,
    /// Seed of the per-directory entry order (ext4-style hash order).
    pub dir_seed: u64,
    /// Maximum entries delivered per getdents batch.
    pub readdir_batch: usize,
}

impl Default for FsCfg {
    fn default() -> Self {
        FsCfg {
            gran_ns: 1,
            atime: AtimePolicy::Relatime,
            enforce_perms: true,
            dir_seed: 0,
            readdir_batch: 32,
        }
    }
}

#[derive(Clone, Debug)]
pub enum Node {
    File(Arc<Vec<u8>>),
    Dir(BTreeMap<String, Ino>),
    /// symbolic link (only ever planted by the harness: the library creates none)
    Symlink(String),
}

#[derive(Clone, Debug)]
pub struct Inode {
    pub ino: Ino,
    pub node: Node,
    pub mode: u32,
    pub nlink: u32,
    pub atime: Ts,
    pub mtime: Ts,
    pub ctime: Ts,
    /// Written (or truncated) since the last successful fsync.
    pub dirty: bool,
    /// Number of open descriptors referring to this inode.
    pub opens: u32,
    /// Parent directory (directories only), for `..`.
    pub parent: Ino,
}

impl Inode {
    pub fn is_dir(&self) -> bool {
        matches!(self.node, Node::Dir(_))
    }
    pub fn is_file(&self) -> bool {
        matches!(self.node, Node::File(_))
    }
    pub fn is_symlink(&self) -> bool {
        matches!(self.node, Node::Symlink(_))
    }
    pub fn data(&self) -> &[u8] {
        match &self.node {
            Node::File(d) => d,
            _ => &[],
        }
    }
    pub fn size(&self) -> u64 {
        match &self.node {
            Node::File(d) => d.len() as u64,
            Node::Dir(e) => 4096 + 0 * e.len() as u64,
            Node::Symlink(t) => t.len() as u64,
        }
    }
}

#[derive(Clone, Debug, PartialEq, Eq)]
pub struct Stat {
    pub ino: Ino,
    pub is_dir: bool,
    pub is_symlink: bool,
    pub mode: u32,
    pub nlink: u32,
    pub size: u64,
    pub atime: Ts,
    pub mtime: Ts,
    pub ctime: Ts,
}

#[derive(Clone, Debug)]
pub struct SimFs {
    pub cfg: FsCfg,
    pub inodes: BTreeMap<Ino, Inode>,
    pub root: Ino,
    next_ino: Ino,
    /// Current simulated time (ns since epoch).
    pub now: Ts,
}

/// Result of resolving a path: the parent directory, the final name and
/// the inode it currently designates (if any).
#[derive(Clone, Debug)]
pub struct Resolved {
    pub parent: Ino,
    pub name: String,
    pub ino: Option<Ino>,
    /// The path demanded a directory (trailing slash or final `.`/`..`).
    pub must_be_dir: bool,
    /// Canonical absolute path (no `.`/`..`), for trace/oracle use.
    pub canon: String,
}

fn mix64(mut x: u64) -> u64 {
    x = x.wrapping_add(0x9e3779b97f4a7c15);
    x = (x ^ (x >> 30)).wrapping_mul(0xbf58476d1ce4e5b9);
    x = (x ^ (x >> 27)).wrapping_mul(0x94d049bb133111eb);
    x ^ (x >> 31)
}

/// The last component of a path as written (ignoring trailing slashes).
pub fn last_component(path: &str) -> &str {
    path.trim_end_matches('/').rsplit('/').next().unwrap_or("")
}

pub fn name_hash(seed: u64, dir: Ino, name: &str) -> u64 {
    let mut h = mix64(seed ^ dir.wrapping_mul(0x9e3779b97f4a7c15));
    for b in name.as_bytes() {
        h = mix64(h ^ (*b as u64));
    }
    // never 0 so that a cursor of 0 means "from the start"
    h | 1
}

impl SimFs {
    pub fn new(cfg: FsCfg, now: Ts) -> SimFs {
        let mut fs = SimFs {
            cfg,
            inodes: BTreeMap::new(),
            root: 1,
            next_ino: 2,
            now,
        };
        let t = fs.trunc(now);
        fs.inodes.insert(
            1,
            Inode {
                ino: 1,
                node: Node::Dir(BTreeMap::new()),
                mode: 0o755,
                nlink: 2,
                atime: t,
                mtime: t,
                ctime: t,
                dirty: false,
                opens: 0,
                parent: 1,
            },
        );
        fs
    }

    /// Truncates a timestamp to the filesystem's granularity.
    pub fn trunc(&self, t: Ts) -> Ts {
        let g = self.cfg.gran_ns.max(1);
        t.div_euclid(g) * g
    }

    fn stamp(&self) -> Ts {
        self.trunc(self.now)
    }

    pub fn inode(&self, ino: Ino) -> &Inode {
        self.inodes.get(&ino).expect("dangling inode")
    }

    pub fn inode_mut(&mut self, ino: Ino) -> &mut Inode {
        self.inodes.get_mut(&ino).expect("dangling inode")
    }

    fn dir_entries(&self, ino: Ino) -> Result<&BTreeMap<String, Ino>, Errno> {
        match &self.inodes.get(&ino).ok_or(libc::ENOENT)?.node {
            Node::Dir(e) => Ok(e),
            _ => Err(libc::ENOTDIR),
        }
    }

    fn dir_entries_mut(&mut self, ino: Ino) -> &mut BTreeMap<String, Ino> {
        match &mut self.inodes.get_mut(&ino).expect("dangling dir").node {
            Node::Dir(e) => e,
            _ => panic!("not a directory"),
        }
    }

    /// Canonical path of a directory inode (walks `parent` links).
    pub fn dir_path(&self, mut ino: Ino) -> String {
        let mut parts: Vec<String> = Vec::new();
        while ino != self.root {
            let parent = self.inode(ino).parent;
            let name = self
                .dir_entries(parent)
                .ok()
                .and_then(|e| e.iter().find(|(_, i)| **i == ino).map(|(n, _)| n.clone()))
                .unwrap_or_else(|| format!("<deleted:{}>", ino));
            parts.push(name);
            ino = parent;
        }
        if parts.is_empty() {
            return "/".to_string();
        }
        parts.reverse();
        format!("/{}", parts.join("/"))
    }

    /// Resolves `path` (absolute, or relative to the root) the way the
    /// kernel does, without symlinks.
    pub fn resolve(&self, path: &str) -> Result<Resolved, Errno> {
        self.resolve_d(path, 0, true)
    }

    /// Resolution of a name about to be created (mkdir, link/rename target):
    /// a final symbolic link is never followed, trailing slash or not.
    pub fn resolve_create(&self, path: &str) -> Result<Resolved, Errno> {
        self.resolve_d(path, 0, false)
    }

    fn resolve_d(&self, path: &str, depth: u32, follow_trailing: bool) -> Result<Resolved, Errno> {
        if depth > 40 {
            return Err(libc::ELOOP);
        }
        if path.is_empty() {
            return Err(libc::ENOENT);
        }
        if path.len() >= PATH_MAX {
            return Err(libc::ENAMETOOLONG);
        }
        let mut cur = self.root;
        let comps: Vec<&str> = path.split('/').filter(|c| !c.is_empty()).collect();
        let trailing = path.ends_with('/');
        if comps.is_empty() {
            // "/" or "//"
            return Ok(Resolved {
                parent: self.root,
                name: ".".to_string(),
                ino: Some(self.root),
                must_be_dir: true,
                canon: "/".to_string(),
            });
        }
        let last = comps.len() - 1;
        for (i, c) in comps.iter().enumerate() {
            if c.len() > NAME_MAX {
                return Err(libc::ENAMETOOLONG);
            }
            // `cur` must be a directory to walk through it.
            let entries = self.dir_entries(cur)?;
            let next: Option<Ino> = match *c {
                "." => Some(cur),
                ".." => Some(self.inode(cur).parent),
                name => entries.get(name).copied(),
            };
            if i == last {
                // a trailing slash forces a final symbolic link to be followed
                if trailing && follow_trailing {
                    if let Some(n) = next {
                        if let Node::Symlink(t) = &self.inode(n).node {
                            let base = if t.starts_with('/') { t.clone() } else { format!("{}/{}", self.dir_path(cur), t) };
                            return self.resolve_d(&format!("{}/", base), depth + 1, follow_trailing);
                        }
                    }
                }
                let special = *c == "." || *c == "..";
                let (parent, name, canon) = if special {
                    let target = next.unwrap();
                    let p = self.inode(target).parent;
                    let canon = self.dir_path(target);
                    let nm = canon.rsplit('/').next().unwrap_or("").to_string();
                    (p, if nm.is_empty() { ".".to_string() } else { nm }, canon)
                } else {
                    let dp = self.dir_path(cur);
                    let canon = if dp == "/" {
                        format!("/{}", c)
                    } else {
                        format!("{}/{}", dp, c)
                    };
                    (cur, c.to_string(), canon)
                };
                return Ok(Resolved {
                    parent,
                    name,
                    ino: next,
                    must_be_dir: trailing || special,
                    canon,
                });
            }
            match next {
                None => return Err(libc::ENOENT),
                Some(n) => {
                    if let Node::Symlink(t) = &self.inode(n).node {
                        // follow the link and continue with the remaining components
                        let base = if t.starts_with('/') { t.clone() } else { format!("{}/{}", self.dir_path(cur), t) };
                        let rest: Vec<&str> = comps[i + 1..].to_vec();
                        let np = format!("{}/{}{}", base, rest.join("/"), if trailing { "/" } else { "" });
                        return self.resolve_d(&np, depth + 1, follow_trailing);
                    }
                    if !self.inode(n).is_dir() {
                        return Err(libc::ENOTDIR);
                    }
                    cur = n;
                }
            }
        }
        unreachable!()
    }

    /// Like `resolve`, but a symbolic link in the final position is followed
    /// (as open/stat/chmod/utimensat do).  Links in intermediate positions are
    /// followed by both.
    pub fn resolve_follow(&self, path: &str) -> Result<Resolved, Errno> {
        let mut path = path.to_string();
        for _ in 0..40 {
            let r = self.resolve(&path)?;
            match r.ino.map(|i| &self.inode(i).node) {
                Some(Node::Symlink(t)) => {
                    path = if t.starts_with('/') { t.clone() } else { format!("{}/{}", self.dir_path(r.parent), t) };
                    if r.must_be_dir {
                        path.push('/');
                    }
                }
                _ => return Ok(r),
            }
        }
        Err(libc::ELOOP)
    }

    /// Resolve to an existing inode (final symbolic links followed).
    pub fn lookup(&self, path: &str) -> Result<Ino, Errno> {
        let r = self.resolve_follow(path)?;
        let ino = r.ino.ok_or(libc::ENOENT)?;
        if r.must_be_dir && !self.inode(ino).is_dir() {
            return Err(libc::ENOTDIR);
        }
        Ok(ino)
    }

    pub fn stat_ino(&self, ino: Ino) -> Stat {
        let i = self.inode(ino);
        Stat {
            ino,
            is_dir: i.is_dir(),
            is_symlink: i.is_symlink(),
            mode: i.mode,
            nlink: i.nlink,
            size: i.size(),
            atime: i.atime,
            mtime: i.mtime,
            ctime: i.ctime,
        }
    }

    pub fn stat(&self, path: &str) -> Result<Stat, Errno> {
        Ok(self.stat_ino(self.lookup(path)?))
    }

    /// Like `stat`, but a final symbolic link is not followed.
    pub fn lstat(&self, path: &str) -> Result<Stat, Errno> {
        let r = self.resolve(path)?;
        let ino = r.ino.ok_or(libc::ENOENT)?;
        Ok(self.stat_ino(ino))
    }

    fn alloc(&mut self, node: Node, mode: u32, parent: Ino) -> Ino {
        let ino = self.next_ino;
        self.next_ino += 1;
        let t = self.stamp();
        let is_dir = matches!(node, Node::Dir(_));
        self.inodes.insert(
            ino,
            Inode {
                ino,
                node,
                mode: mode & 0o7777,
                nlink: if is_dir { 2 } else { 0 },
                atime: t,
                mtime: t,
                ctime: t,
                dirty: false,
                opens: 0,
                parent,
            },
        );
        ino
    }

    fn touch_dir(&mut self, dir: Ino) {
        let t = self.stamp();
        let d = self.inode_mut(dir);
        d.mtime = t;
        d.ctime = t;
    }

    fn maybe_free(&mut self, ino: Ino) {
        let i = self.inode(ino);
        if i.nlink == 0 && i.opens == 0 && ino != self.root {
            self.inodes.remove(&ino);
        }
    }

    /// Creates a regular file at `path`.  Fails with EEXIST if it exists.
    pub fn create_file(&mut self, path: &str, mode: u32) -> Result<Ino, Errno> {
        let r = self.resolve(path)?;
        if r.ino.is_some() {
            return Err(libc::EEXIST);
        }
        if r.must_be_dir {
            return Err(libc::EISDIR);
        }
        if self.inode(r.parent).nlink == 0 {
            return Err(libc::ENOENT);
        }
        let ino = self.alloc(Node::File(Arc::new(Vec::new())), mode, r.parent);
        self.inode_mut(ino).nlink = 1;
        self.dir_entries_mut(r.parent).insert(r.name, ino);
        self.touch_dir(r.parent);
        Ok(ino)
    }

    /// Creates an anonymous (O_TMPFILE) inode.
    pub fn create_anon(&mut self, dir: &str, mode: u32) -> Result<Ino, Errno> {
        let d = self.lookup(dir)?;
        if !self.inode(d).is_dir() {
            return Err(libc::ENOTDIR);
        }
        Ok(self.alloc(Node::File(Arc::new(Vec::new())), mode, d))
    }

    pub fn mkdir(&mut self, path: &str, mode: u32) -> Result<Ino, Errno> {
        let r = self.resolve_create(path)?;
        if r.ino.is_some() {
            return Err(libc::EEXIST);
        }
        if self.inode(r.parent).nlink == 0 {
            return Err(libc::ENOENT);
        }
        let ino = self.alloc(Node::Dir(BTreeMap::new()), mode, r.parent);
        self.dir_entries_mut(r.parent).insert(r.name, ino);
        self.inode_mut(r.parent).nlink += 1;
        self.touch_dir(r.parent);
        Ok(ino)
    }

    pub fn rmdir(&mut self, path: &str) -> Result<(), Errno> {
        let r = self.resolve_create(path)?;
        match last_component(path) {
            "." => return Err(libc::EINVAL),
            ".." => return Err(libc::ENOTEMPTY),
            _ => {}
        }
        let ino = r.ino.ok_or(libc::ENOENT)?;
        if !self.inode(ino).is_dir() {
            return Err(libc::ENOTDIR);
        }
        if ino == self.root {
            return Err(libc::EBUSY);
        }
        if !self.dir_entries(ino)?.is_empty() {
            return Err(libc::ENOTEMPTY);
        }
        self.dir_entries_mut(r.parent).remove(&r.name);
        self.inode_mut(r.parent).nlink -= 1;
        self.touch_dir(r.parent);
        let t = self.stamp();
        let i = self.inode_mut(ino);
        i.nlink = 0;
        i.ctime = t;
        self.maybe_free(ino);
        Ok(())
    }

    pub fn unlink(&mut self, path: &str) -> Result<Ino, Errno> {
        let r = self.resolve_create(path)?;
        let ino = r.ino.ok_or(libc::ENOENT)?;
        if self.inode(ino).is_dir() {
            return Err(libc::EISDIR);
        }
        if r.must_be_dir {
            return Err(libc::ENOTDIR);
        }
        self.dir_entries_mut(r.parent).remove(&r.name);
        self.touch_dir(r.parent);
        let t = self.stamp();
        let i = self.inode_mut(ino);
        i.nlink -= 1;
        i.ctime = t;
        self.maybe_free(ino);
        Ok(ino)
    }

    pub fn link(&mut self, from: &str, to: &str) -> Result<Ino, Errno> {
        // linkat(2): the old path is looked up completely, then the new
        // name is looked up for creation, then vfs_link checks the type
        let src = self.resolve(from)?;
        let ino = src.ino.ok_or(libc::ENOENT)?;
        if src.must_be_dir && !self.inode(ino).is_dir() {
            return Err(libc::ENOTDIR);
        }
        let dst = self.resolve_create(to)?;
        if dst.ino.is_some() {
            return Err(libc::EEXIST);
        }
        if dst.must_be_dir {
            return Err(libc::ENOENT);
        }
        if self.inode(ino).is_dir() {
            return Err(libc::EPERM);
        }
        if self.inode(dst.parent).nlink == 0 {
            return Err(libc::ENOENT);
        }
        self.dir_entries_mut(dst.parent).insert(dst.name, ino);
        self.touch_dir(dst.parent);
        let t = self.stamp();
        let i = self.inode_mut(ino);
        i.nlink += 1;
        i.ctime = t;
        Ok(ino)
    }

    /// rename(2).  Returns (moved inode, replaced inode if any).
    pub fn rename(&mut self, from: &str, to: &str) -> Result<(Ino, Option<Ino>), Errno> {
        // renameat(2): both parent directories are walked first, then the
        // last components are looked up
        let src = self.resolve_create(from)?;
        let dst = self.resolve_create(to)?;
        for p in [from, to] {
            let l = last_component(p);
            if l == "." || l == ".." {
                return Err(libc::EBUSY);
            }
        }
        let ino = src.ino.ok_or(libc::ENOENT)?;
        let src_is_dir = self.inode(ino).is_dir();
        if src.must_be_dir && !src_is_dir {
            return Err(libc::ENOTDIR);
        }
        if dst.must_be_dir && !src_is_dir {
            return Err(libc::ENOTDIR);
        }
        if self.inode(dst.parent).nlink == 0 {
            return Err(libc::ENOENT);
        }
        if src_is_dir {
            // cannot move a directory into itself
            let mut p = dst.parent;
            loop {
                if p == ino {
                    return Err(libc::EINVAL);
                }
                if p == self.root {
                    break;
                }
                p = self.inode(p).parent;
            }
        }
        let mut replaced = None;
        if let Some(old) = dst.ino {
            // the target is an ancestor of the source
            let mut p = src.parent;
            loop {
                if p == old {
                    return Err(libc::ENOTEMPTY);
                }
                if p == self.root {
                    break;
                }
                p = self.inode(p).parent;
            }
            if old == ino {
                // same inode: POSIX says do nothing, successfully.
                return Ok((ino, None));
            }
            let old_is_dir = self.inode(old).is_dir();
            if src_is_dir && !old_is_dir {
                return Err(libc::ENOTDIR);
            }
            if !src_is_dir && old_is_dir {
                return Err(libc::EISDIR);
            }
            if old_is_dir && !self.dir_entries(old)?.is_empty() {
                return Err(libc::ENOTEMPTY);
            }
            replaced = Some(old);
        }
        let t = self.stamp();
        // remove source entry
        self.dir_entries_mut(src.parent).remove(&src.name);
        if let Some(old) = replaced {
            let o = self.inode_mut(old);
            if o.is_dir() {
                o.nlink = 0;
            } else {
                o.nlink -= 1;
            }
            o.ctime = t;
            if self.inode(old).is_dir() {
                self.inode_mut(dst.parent).nlink -= 1;
            }
        }
        self.dir_entries_mut(dst.parent).insert(dst.name, ino);
        if src_is_dir {
            self.inode_mut(src.parent).nlink -= 1;
            self.inode_mut(dst.parent).nlink += 1;
            self.inode_mut(ino).parent = dst.parent;
        }
        self.inode_mut(ino).ctime = t;
        self.touch_dir(src.parent);
        self.touch_dir(dst.parent);
        if let Some(old) = replaced {
            self.maybe_free(old);
        }
        Ok((ino, replaced))
    }

    pub fn chmod_ino(&mut self, ino: Ino, mode: u32) {
        let t = self.stamp();
        let i = self.inode_mut(ino);
        i.mode = mode & 0o7777;
        i.ctime = t;
    }

    /// utimensat/futimens.  `UTIME_OMIT` leaves a field alone and
    /// `UTIME_NOW` uses the current time.
    pub fn utimens_ino(&mut self, ino: Ino, atime: Ts, mtime: Ts) {
        let now = self.stamp();
        let a = match atime {
            UTIME_OMIT => None,
            UTIME_NOW => Some(now),
            t => Some(self.trunc(t)),
        };
        let m = match mtime {
            UTIME_OMIT => None,
            UTIME_NOW => Some(now),
            t => Some(self.trunc(t)),
        };
        let i = self.inode_mut(ino);
        if let Some(a) = a {
            i.atime = a;
        }
        if let Some(m) = m {
            i.mtime = m;
        }
        if a.is_some() || m.is_some() {
            i.ctime = now;
        }
    }

    /// Applies the atime policy for a read access.
    pub fn access_ino(&mut self, ino: Ino) {
        let now = self.stamp();
        let policy = self.cfg.atime;
        let i = self.inode_mut(ino);
        let update = match policy {
            AtimePolicy::Strict => true,
            AtimePolicy::Noatime => false,
            AtimePolicy::Relatime => {
                i.atime <= i.mtime
                    || i.atime <= i.ctime
                    || now.saturating_sub(i.atime) >= 24 * 3600 * 1_000_000_000
            }
        };
        if update {
            i.atime = now;
        }
    }

    pub fn read_ino(&mut self, ino: Ino, off: u64, len: usize) -> Result<Vec<u8>, Errno> {
        let out = {
            let i = self.inode(ino);
            if i.is_dir() {
                return Err(libc::EISDIR);
            }
            let d = i.data();
            let start = (off as usize).min(d.len());
            let end = start.saturating_add(len).min(d.len());
            d[start..end].to_vec()
        };
        self.access_ino(ino);
        Ok(out)
    }

    pub fn write_ino(&mut self, ino: Ino, off: u64, data: &[u8]) -> Result<usize, Errno> {
        let t = self.stamp();
        let i = self.inode_mut(ino);
        match &mut i.node {
            Node::Dir(_) => return Err(libc::EISDIR),
            Node::Symlink(_) => return Err(libc::EINVAL),
            Node::File(d) => {
                let d = Arc::make_mut(d);
                let off = off as usize;
                if d.len() < off {
                    d.resize(off, 0);
                }
                let end = off + data.len();
                if d.len() < end {
                    d.resize(end, 0);
                }
                d[off..end].copy_from_slice(data);
            }
        }
        if !data.is_empty() {
            i.mtime = t;
            i.ctime = t;
            i.dirty = true;
        }
        Ok(data.len())
    }

    pub fn truncate_ino(&mut self, ino: Ino, len: u64) -> Result<(), Errno> {
        let t = self.stamp();
        let i = self.inode_mut(ino);
        match &mut i.node {
            Node::Dir(_) => return Err(libc::EISDIR),
            Node::Symlink(_) => return Err(libc::EINVAL),
            Node::File(d) => {
                Arc::make_mut(d).resize(len as usize, 0);
            }
        }
        i.mtime = t;
        i.ctime = t;
        i.dirty = true;
        Ok(())
    }

    pub fn fsync_ino(&mut self, ino: Ino) {
        self.inode_mut(ino).dirty = false;
    }

    /// One getdents batch: entries of `dir` whose hash position is greater
    /// than `cursor`, in hash order, at most `max` of them.  Returns the
    /// entries with their positions.
    pub fn readdir_batch(
        &mut self,
        dir: Ino,
        cursor: u64,
        max: usize,
    ) -> Result<Vec<(u64, String, Ino, bool)>, Errno> {
        let seed = self.cfg.dir_seed;
        let mut all: Vec<(u64, String, Ino, bool)> = {
            let entries = self.dir_entries(dir)?;
            entries
                .iter()
                .map(|(n, i)| (name_hash(seed, dir, n), n.clone(), *i))
                .filter(|(h, _, _)| *h > cursor)
                .map(|(h, n, i)| {
                    let is_dir = self.inodes.get(&i).map(|x| x.is_dir()).unwrap_or(false);
                    (h, n, i, is_dir)
                })
                .collect()
        };
        all.sort();
        all.truncate(max.max(1));
        self.access_ino(dir);
        Ok(all)
    }

    // ------------------------------------------------------------------
    // Convenience functions for the harness (not reachable from the shim).
    // ------------------------------------------------------------------

    pub fn exists(&self, path: &str) -> bool {
        self.lookup(path).is_ok()
    }

    pub fn mkdir_all(&mut self, path: &str) {
        let mut cur = String::new();
        for c in path.split('/').filter(|c| !c.is_empty()) {
            cur.push('/');
            cur.push_str(c);
            match self.mkdir(&cur, 0o755) {
                Ok(_) | Err(libc::EEXIST) => {}
                Err(e) => panic!("mkdir_all({}) failed: {}", cur, e),
            }
        }
    }

    /// Plants a file with given content, mode and times (bypasses everything).
    pub fn plant_file(&mut self, path: &str, data: &[u8], mode: u32, atime: Ts, mtime: Ts) -> Ino {
        let ino = match self.lookup(path) {
            Ok(i) => i,
            Err(_) => self.create_file(path, mode).expect("plant_file: create"),
        };
        let (a, m) = (self.trunc(atime), self.trunc(mtime));
        let i = self.inode_mut(ino);
        i.node = Node::File(Arc::new(data.to_vec()));
        i.mode = mode;
        i.atime = a;
        i.mtime = m;
        i.ctime = m;
        i.dirty = false;
        ino
    }

    /// Plants a symbolic link (harness only).
    pub fn plant_symlink(&mut self, path: &str, target: &str, mtime: Ts) -> Ino {
        let r = self.resolve(path).expect("plant_symlink: parent");
        assert!(r.ino.is_none(), "plant_symlink: exists");
        let ino = self.alloc(Node::Symlink(target.to_string()), 0o777, r.parent);
        let m = self.trunc(mtime);
        {
            let i = self.inode_mut(ino);
            i.nlink = 1;
            i.mtime = m;
            i.atime = m;
            i.ctime = m;
        }
        self.dir_entries_mut(r.parent).insert(r.name, ino);
        ino
    }

    pub fn list(&self, dir: &str) -> Vec<(String, Ino)> {
        match self.lookup(dir).and_then(|d| self.dir_entries(d).map(|e| e.clone())) {
            Ok(e) => e.into_iter().collect(),
            Err(_) => Vec::new(),
        }
    }

    pub fn read_path(&self, path: &str) -> Option<Vec<u8>> {
        let ino = self.lookup(path).ok()?;
        let i = self.inode(ino);
        if i.is_file() {
            Some(i.data().to_vec())
        } else {
            None
        }
    }

    /// Recursive listing: (canonical path, Stat, content) for everything
    /// under `root` (inclusive), sorted by path.
    pub fn tree(&self, root: &str) -> Vec<(String, Stat, Option<Arc<Vec<u8>>>)> {
        let mut out = Vec::new();
        let ino = match self.lookup(root) {
            Ok(i) => i,
            Err(_) => return out,
        };
        let canon = if ino == self.root {
            "/".to_string()
        } else if self.inode(ino).is_dir() {
            self.dir_path(ino)
        } else {
            self.resolve(root).map(|r| r.canon).unwrap_or_else(|_| root.to_string())
        };
        self.tree_rec(ino, &canon, &mut out);
        out
    }

    fn tree_rec(&self, ino: Ino, path: &str, out: &mut Vec<(String, Stat, Option<Arc<Vec<u8>>>)>) {
        let i = self.inode(ino);
        match &i.node {
            Node::File(d) => out.push((path.to_string(), self.stat_ino(ino), Some(d.clone()))),
            Node::Symlink(_) => out.push((path.to_string(), self.stat_ino(ino), None)),
            Node::Dir(e) => {
                out.push((path.to_string(), self.stat_ino(ino), None));
                for (n, c) in e.iter() {
                    let p = if path == "/" {
                        format!("/{}", n)
                    } else {
                        format!("{}/{}", path, n)
                    };
                    self.tree_rec(*c, &p, out);
                }
            }
        }
    }
}
