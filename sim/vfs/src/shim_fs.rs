//! `std::fs` look-alikes.  Each entry point asks whether the calling thread
//! is attached to a simulator; if so the call goes to the Sim kernel, else
//! it passes through to the real `std::fs`.
//!
//! Ports of library logic cite their source:
//!  - `create_dir_all`: library/std/src/fs.rs `DirBuilder::create_dir_all`
//!  - `read`/`write`/`copy`: library/std/src/fs.rs
//!  - `Permissions::set_readonly`: the *real* `std::fs::Permissions` is reused.

use crate::kernel::{self as k, Ctx, Out, Req, Sim, K};
use crate::simfs::Stat;
use ::std::ffi::OsString;
use ::std::io::{self, Read, Seek, SeekFrom, Write};
use ::std::os::unix::fs::PermissionsExt;
use ::std::path::{Path, PathBuf};
use ::std::sync::Arc;

pub use ::std::fs::Permissions;

/// Simulated names are Rust strings; bytes that are not valid UTF-8 are
/// carried through as private-use characters U+F780..U+F7FF so that names
/// such as b".caf\xe9" exist in SimFs and come back byte-identical.
pub fn enc_path(p: &Path) -> io::Result<String> {
    use ::std::os::unix::ffi::OsStrExt;
    let mut rest = p.as_os_str().as_bytes();
    if rest.contains(&0) {
        return Err(io::Error::new(
            io::ErrorKind::InvalidInput,
            "file name contained an unexpected NUL byte",
        ));
    }
    let mut out = String::with_capacity(rest.len());
    loop {
        match ::std::str::from_utf8(rest) {
            Ok(s) => {
                out.push_str(s);
                return Ok(out);
            }
            Err(e) => {
                let (good, bad) = rest.split_at(e.valid_up_to());
                out.push_str(::std::str::from_utf8(good).unwrap());
                out.push(char::from_u32(0xF700 + bad[0] as u32).unwrap());
                rest = &bad[1..];
            }
        }
    }
}

pub fn dec_name(s: &str) -> OsString {
    use ::std::os::unix::ffi::OsStringExt;
    let mut bytes = Vec::with_capacity(s.len());
    for c in s.chars() {
        let u = c as u32;
        if (0xF780..=0xF7FF).contains(&u) {
            bytes.push((u - 0xF700) as u8);
        } else {
            let mut b = [0u8; 4];
            bytes.extend_from_slice(c.encode_utf8(&mut b).as_bytes());
        }
    }
    OsString::from_vec(bytes)
}

fn path_str(p: &Path) -> io::Result<String> {
    enc_path(p)
}

fn eio<T>(e: i32) -> io::Result<T> {
    Err(io::Error::from_raw_os_error(e))
}

// ----------------------------------------------------------------------
// File
// ----------------------------------------------------------------------

pub struct SimFile {
    pub(crate) sim: Arc<Sim>,
    pub(crate) proc: usize,
    pub(crate) fd: i32,
}

impl SimFile {
    fn ctx(&self) -> Ctx {
        match k::current() {
            Some(c) if Arc::ptr_eq(&c.sim, &self.sim) => Ctx {
                proc: self.proc,
                ..c
            },
            _ => Ctx {
                sim: self.sim.clone(),
                part: None,
                proc: self.proc,
                op: 0,
                lib: false,
            },
        }
    }
}

impl Drop for SimFile {
    fn drop(&mut self) {
        let ctx = self.ctx();
        // A destructor must never start a second panic: if the process is
        // dead the kernel already closed the descriptor.
        {
            let st = self.sim.lock();
            let dead = st.procs[self.proc].dead
                || ctx
                    .part
                    .map(|p| st.parts.get(p).map(|x| x.dead).unwrap_or(false))
                    .unwrap_or(false);
            if dead {
                return;
            }
        }
        let _ = self
            .sim
            .call(&ctx, K::Close, Req::fd(self.fd), true, |st, p, r| k::k_close(st, p, r));
    }
}

pub enum File {
    Real(::std::fs::File),
    Sim(SimFile),
}

impl ::std::fmt::Debug for File {
    fn fmt(&self, f: &mut ::std::fmt::Formatter<'_>) -> ::std::fmt::Result {
        match self {
            File::Real(r) => r.fmt(f),
            File::Sim(s) => write!(f, "SimFile(proc={}, fd={})", s.proc, s.fd),
        }
    }
}

impl File {
    pub fn open<P: AsRef<Path>>(path: P) -> io::Result<File> {
        OpenOptions::new().read(true).open(path.as_ref())
    }

    pub fn create<P: AsRef<Path>>(path: P) -> io::Result<File> {
        OpenOptions::new()
            .write(true)
            .create(true)
            .truncate(true)
            .open(path.as_ref())
    }

    pub fn create_new<P: AsRef<Path>>(path: P) -> io::Result<File> {
        OpenOptions::new()
            .read(true)
            .write(true)
            .create_new(true)
            .open(path.as_ref())
    }

    pub fn options() -> OpenOptions {
        OpenOptions::new()
    }

    pub fn sim_fd(&self) -> Option<i32> {
        match self {
            File::Sim(s) => Some(s.fd),
            File::Real(_) => None,
        }
    }

    pub fn sync_all(&self) -> io::Result<()> {
        match self {
            File::Real(f) => f.sync_all(),
            File::Sim(s) => s
                .sim
                .call(&s.ctx(), K::Fsync, Req::fd(s.fd), true, |st, p, r| k::k_fsync(st, p, r)),
        }
    }

    pub fn sync_data(&self) -> io::Result<()> {
        match self {
            File::Real(f) => f.sync_data(),
            File::Sim(s) => s
                .sim
                .call(&s.ctx(), K::Fdatasync, Req::fd(s.fd), true, |st, p, r| {
                    k::k_fsync(st, p, r)
                }),
        }
    }

    pub fn set_len(&self, size: u64) -> io::Result<()> {
        match self {
            File::Real(f) => f.set_len(size),
            File::Sim(s) => {
                let mut req = Req::fd(s.fd);
                req.arg = size;
                s.sim
                    .call(&s.ctx(), K::Truncate, req, true, |st, p, r| k::k_truncate(st, p, r))
            }
        }
    }

    pub fn metadata(&self) -> io::Result<Metadata> {
        match self {
            File::Real(f) => f.metadata().map(Metadata::Real),
            File::Sim(s) => s
                .sim
                .call(&s.ctx(), K::Fstat, Req::fd(s.fd), true, |st, p, r| k::k_fstat(st, p, r))
                .map(Metadata::Sim),
        }
    }

    pub fn try_clone(&self) -> io::Result<File> {
        match self {
            File::Real(f) => f.try_clone().map(File::Real),
            File::Sim(s) => {
                // dup(2): modelled as a fresh descriptor on the same inode
                // starting at the same offset (offset sharing is not modelled).
                let mut st = s.sim.lock();
                let e = st.procs[s.proc]
                    .fds
                    .get(&s.fd)
                    .cloned()
                    .ok_or_else(|| io::Error::from_raw_os_error(libc::EBADF))?;
                st.fs.inode_mut(e.ino).opens += 1;
                let mut fd = 3;
                while st.procs[s.proc].fds.contains_key(&fd) {
                    fd += 1;
                }
                st.procs[s.proc].fds.insert(fd, e);
                let n = st.procs[s.proc].fds.len();
                if n > st.procs[s.proc].peak_fds {
                    st.procs[s.proc].peak_fds = n;
                }
                Ok(File::Sim(SimFile {
                    sim: s.sim.clone(),
                    proc: s.proc,
                    fd,
                }))
            }
        }
    }

    pub fn set_permissions(&self, perm: Permissions) -> io::Result<()> {
        match self {
            File::Real(f) => f.set_permissions(perm),
            File::Sim(s) => {
                let mut req = Req::fd(s.fd);
                req.arg = (perm.mode() & 0o7777) as u64;
                s.sim
                    .call(&s.ctx(), K::Fchmod, req, true, |st, p, r| k::k_fchmod(st, p, r))
            }
        }
    }

    pub fn set_modified(&self, t: crate::shim_misc::time::SystemTime) -> io::Result<()> {
        match self {
            File::Real(f) => f.set_modified(t.0),
            File::Sim(_) => {
                let ft = crate::shim_misc::filetime::FileTime::from_system_time(t);
                crate::shim_misc::filetime::set_file_handle_times(self, None, Some(ft))
            }
        }
    }

    fn lock_call(&self, what: u64) -> io::Result<()> {
        match self {
            File::Real(_) => Ok(()),
            File::Sim(s) => {
                let mut req = Req::fd(s.fd);
                req.arg = what;
                s.sim.call(&s.ctx(), K::Lock, req, true, |st, _p, _r| {
                    st.locks += 1;
                    Ok(((), Out::default()))
                })
            }
        }
    }

    pub fn lock(&self) -> io::Result<()> {
        if let File::Real(f) = self {
            return f.lock();
        }
        self.lock_call(1)
    }
    pub fn lock_shared(&self) -> io::Result<()> {
        if let File::Real(f) = self {
            return f.lock_shared();
        }
        self.lock_call(2)
    }
    pub fn try_lock(&self) -> io::Result<()> {
        if let File::Real(f) = self {
            return f.try_lock().map_err(|e| match e {
                ::std::fs::TryLockError::Error(e) => e,
                ::std::fs::TryLockError::WouldBlock => io::Error::from_raw_os_error(libc::EWOULDBLOCK),
            });
        }
        self.lock_call(3)
    }
    pub fn try_lock_shared(&self) -> io::Result<()> {
        if let File::Real(f) = self {
            return f.try_lock_shared().map_err(|e| match e {
                ::std::fs::TryLockError::Error(e) => e,
                ::std::fs::TryLockError::WouldBlock => io::Error::from_raw_os_error(libc::EWOULDBLOCK),
            });
        }
        self.lock_call(4)
    }
    pub fn unlock(&self) -> io::Result<()> {
        if let File::Real(f) = self {
            return f.unlock();
        }
        self.lock_call(5)
    }

    fn do_read(&self, buf: &mut [u8]) -> io::Result<usize> {
        match self {
            File::Real(f) => (&*f).read(buf),
            File::Sim(s) => {
                if buf.is_empty() {
                    return Ok(0);
                }
                let mut req = Req::fd(s.fd);
                req.arg = buf.len() as u64;
                let data = s
                    .sim
                    .call(&s.ctx(), K::Read, req, true, |st, p, r| k::k_read(st, p, r))?;
                buf[..data.len()].copy_from_slice(&data);
                Ok(data.len())
            }
        }
    }

    fn do_write(&self, buf: &[u8]) -> io::Result<usize> {
        match self {
            File::Real(f) => (&*f).write(buf),
            File::Sim(s) => {
                if buf.is_empty() {
                    return Ok(0);
                }
                let mut req = Req::fd(s.fd);
                req.arg = buf.len() as u64;
                s.sim
                    .call(&s.ctx(), K::Write, req, true, |st, p, r| k::k_write(st, p, r, buf))
            }
        }
    }

    fn do_seek(&self, pos: SeekFrom) -> io::Result<u64> {
        match self {
            File::Real(f) => (&*f).seek(pos),
            File::Sim(s) => {
                let (whence, off) = match pos {
                    SeekFrom::Start(o) => (0, o as i64),
                    SeekFrom::Current(o) => (1, o),
                    SeekFrom::End(o) => (2, o),
                };
                let mut req = Req::fd(s.fd);
                req.arg = off as u64;
                s.sim
                    .call(&s.ctx(), K::Seek, req, false, |st, p, r| k::k_seek(st, p, r, whence, off))
            }
        }
    }
}

impl Read for File {
    fn read(&mut self, buf: &mut [u8]) -> io::Result<usize> {
        self.do_read(buf)
    }
}
impl Read for &File {
    fn read(&mut self, buf: &mut [u8]) -> io::Result<usize> {
        self.do_read(buf)
    }
}
impl Write for File {
    fn write(&mut self, buf: &[u8]) -> io::Result<usize> {
        self.do_write(buf)
    }
    fn flush(&mut self) -> io::Result<()> {
        Ok(())
    }
}
impl Write for &File {
    fn write(&mut self, buf: &[u8]) -> io::Result<usize> {
        self.do_write(buf)
    }
    fn flush(&mut self) -> io::Result<()> {
        Ok(())
    }
}
impl Seek for File {
    fn seek(&mut self, pos: SeekFrom) -> io::Result<u64> {
        self.do_seek(pos)
    }
}
impl Seek for &File {
    fn seek(&mut self, pos: SeekFrom) -> io::Result<u64> {
        self.do_seek(pos)
    }
}

impl ::std::os::fd::IntoRawFd for File {
    fn into_raw_fd(self) -> i32 {
        match self {
            File::Real(f) => f.into_raw_fd(),
            File::Sim(s) => {
                // hand the descriptor over without closing it, but do let go
                // of the simulator (a forgotten Arc keeps the whole simulated
                // world alive for the rest of the process)
                let fd = s.fd;
                let s = ::std::mem::ManuallyDrop::new(s);
                // SAFETY: `s` is never used nor dropped again; only its Arc
                // field is moved out and dropped here.
                unsafe { drop(::std::ptr::read(&s.sim)) };
                fd
            }
        }
    }
}

impl ::std::os::fd::AsRawFd for File {
    fn as_raw_fd(&self) -> i32 {
        match self {
            File::Real(f) => f.as_raw_fd(),
            File::Sim(s) => s.fd,
        }
    }
}

impl ::std::os::fd::FromRawFd for File {
    unsafe fn from_raw_fd(fd: i32) -> File {
        match k::current() {
            Some(c) => File::Sim(SimFile {
                sim: c.sim.clone(),
                proc: c.proc,
                fd,
            }),
            None => File::Real(::std::fs::File::from_raw_fd(fd)),
        }
    }
}

impl From<::std::fs::File> for File {
    fn from(f: ::std::fs::File) -> File {
        File::Real(f)
    }
}

// ----------------------------------------------------------------------
// OpenOptions
// ----------------------------------------------------------------------

#[derive(Clone, Debug)]
pub struct OpenOptions {
    read: bool,
    write: bool,
    append: bool,
    truncate: bool,
    create: bool,
    create_new: bool,
    mode: u32,
    custom_flags: i32,
}

impl Default for OpenOptions {
    fn default() -> Self {
        Self::new()
    }
}

impl OpenOptions {
    pub fn new() -> OpenOptions {
        OpenOptions {
            read: false,
            write: false,
            append: false,
            truncate: false,
            create: false,
            create_new: false,
            mode: 0o666,
            custom_flags: 0,
        }
    }
    pub fn read(&mut self, v: bool) -> &mut Self {
        self.read = v;
        self
    }
    pub fn write(&mut self, v: bool) -> &mut Self {
        self.write = v;
        self
    }
    pub fn append(&mut self, v: bool) -> &mut Self {
        self.append = v;
        self
    }
    pub fn truncate(&mut self, v: bool) -> &mut Self {
        self.truncate = v;
        self
    }
    pub fn create(&mut self, v: bool) -> &mut Self {
        self.create = v;
        self
    }
    pub fn create_new(&mut self, v: bool) -> &mut Self {
        self.create_new = v;
        self
    }

    fn real(&self) -> ::std::fs::OpenOptions {
        use ::std::os::unix::fs::OpenOptionsExt;
        let mut o = ::std::fs::OpenOptions::new();
        o.read(self.read)
            .write(self.write)
            .append(self.append)
            .truncate(self.truncate)
            .create(self.create)
            .create_new(self.create_new)
            .mode(self.mode)
            .custom_flags(self.custom_flags);
        o
    }

    pub fn open<P: AsRef<Path>>(&self, path: P) -> io::Result<File> {
        let path = path.as_ref();
        let ctx = match k::current() {
            None => return self.real().open(path).map(File::Real),
            Some(c) => c,
        };
        // std's validation (library/std/src/sys/fs/unix.rs get_access_mode /
        // get_creation_mode)
        if !self.read && !self.write && !self.append {
            return eio(libc::EINVAL);
        }
        if (self.truncate || self.create || self.create_new) && !(self.write || self.append) {
            return eio(libc::EINVAL);
        }
        if self.append && self.truncate && !self.create_new {
            return eio(libc::EINVAL);
        }
        let p = path_str(path)?;
        let mut flags = 0u64;
        if self.read {
            flags |= k::O_READ;
        }
        if self.write {
            flags |= k::O_WRITE;
        }
        if self.append {
            flags |= k::O_APPEND;
        }
        if self.create_new {
            flags |= k::O_CREATE | k::O_EXCL;
        } else {
            if self.create {
                flags |= k::O_CREATE;
            }
            if self.truncate {
                flags |= k::O_TRUNC;
            }
        }
        let tmpfile = self.custom_flags & libc::O_TMPFILE == libc::O_TMPFILE;
        if tmpfile {
            flags |= k::O_TMPFILE;
        }
        let mut req = Req::path(&p);
        req.arg = flags;
        req.mode = self.mode;
        let kind = if tmpfile { K::OpenTmp } else { K::Open };
        let fd = ctx.sim.call(&ctx, kind, req, true, |st, p, r| k::k_open(st, p, r))?;
        Ok(File::Sim(SimFile {
            sim: ctx.sim.clone(),
            proc: ctx.proc,
            fd,
        }))
    }
}

impl ::std::os::unix::fs::OpenOptionsExt for OpenOptions {
    fn mode(&mut self, mode: u32) -> &mut Self {
        self.mode = mode;
        self
    }
    fn custom_flags(&mut self, flags: i32) -> &mut Self {
        self.custom_flags = flags;
        self
    }
}

// ----------------------------------------------------------------------
// Metadata, FileType
// ----------------------------------------------------------------------

#[derive(Clone, Debug)]
pub enum Metadata {
    Real(::std::fs::Metadata),
    Sim(Stat),
}

#[derive(Clone, Copy, Debug, PartialEq, Eq, Hash)]
pub struct FileType {
    dir: bool,
    file: bool,
    symlink: bool,
}

impl FileType {
    pub fn is_dir(&self) -> bool {
        self.dir
    }
    pub fn is_file(&self) -> bool {
        self.file
    }
    pub fn is_symlink(&self) -> bool {
        self.symlink
    }
    fn from_real(t: ::std::fs::FileType) -> FileType {
        FileType {
            dir: t.is_dir(),
            file: t.is_file(),
            symlink: t.is_symlink(),
        }
    }
}

impl Metadata {
    pub fn sim_stat(&self) -> Option<&Stat> {
        match self {
            Metadata::Sim(s) => Some(s),
            _ => None,
        }
    }
    pub fn file_type(&self) -> FileType {
        match self {
            Metadata::Real(m) => FileType::from_real(m.file_type()),
            Metadata::Sim(s) => FileType {
                dir: s.is_dir,
                file: !s.is_dir && !s.is_symlink,
                symlink: s.is_symlink,
            },
        }
    }
    pub fn is_dir(&self) -> bool {
        self.file_type().is_dir()
    }
    pub fn is_file(&self) -> bool {
        self.file_type().is_file()
    }
    pub fn is_symlink(&self) -> bool {
        self.file_type().is_symlink()
    }
    pub fn len(&self) -> u64 {
        match self {
            Metadata::Real(m) => m.len(),
            Metadata::Sim(s) => s.size,
        }
    }
    pub fn st_mode(&self) -> u32 {
        match self {
            Metadata::Real(m) => ::std::os::unix::fs::MetadataExt::mode(m),
            Metadata::Sim(s) => s.mode | if s.is_dir { libc::S_IFDIR } else if s.is_symlink { libc::S_IFLNK } else { libc::S_IFREG },
        }
    }
    pub fn permissions(&self) -> Permissions {
        match self {
            Metadata::Real(m) => m.permissions(),
            Metadata::Sim(_) => Permissions::from_mode(self.st_mode()),
        }
    }
    pub fn modified(&self) -> io::Result<crate::shim_misc::time::SystemTime> {
        match self {
            Metadata::Real(m) => m.modified().map(crate::shim_misc::time::SystemTime),
            Metadata::Sim(s) => Ok(crate::shim_misc::time::SystemTime::from_ns(s.mtime)),
        }
    }
    pub fn accessed(&self) -> io::Result<crate::shim_misc::time::SystemTime> {
        match self {
            Metadata::Real(m) => m.accessed().map(crate::shim_misc::time::SystemTime),
            Metadata::Sim(s) => Ok(crate::shim_misc::time::SystemTime::from_ns(s.atime)),
        }
    }
    pub fn created(&self) -> io::Result<crate::shim_misc::time::SystemTime> {
        match self {
            Metadata::Real(m) => m.created().map(crate::shim_misc::time::SystemTime),
            Metadata::Sim(s) => Ok(crate::shim_misc::time::SystemTime::from_ns(s.ctime)),
        }
    }
}

impl ::std::os::unix::fs::MetadataExt for Metadata {
    fn dev(&self) -> u64 {
        match self {
            Metadata::Real(m) => m.dev(),
            Metadata::Sim(_) => 0x51,
        }
    }
    fn ino(&self) -> u64 {
        match self {
            Metadata::Real(m) => m.ino(),
            Metadata::Sim(s) => s.ino,
        }
    }
    fn mode(&self) -> u32 {
        self.st_mode()
    }
    fn nlink(&self) -> u64 {
        match self {
            Metadata::Real(m) => m.nlink(),
            Metadata::Sim(s) => s.nlink as u64,
        }
    }
    fn uid(&self) -> u32 {
        match self {
            Metadata::Real(m) => m.uid(),
            Metadata::Sim(_) => 1000,
        }
    }
    fn gid(&self) -> u32 {
        match self {
            Metadata::Real(m) => m.gid(),
            Metadata::Sim(_) => 1000,
        }
    }
    fn rdev(&self) -> u64 {
        match self {
            Metadata::Real(m) => m.rdev(),
            Metadata::Sim(_) => 0,
        }
    }
    fn size(&self) -> u64 {
        self.len()
    }
    fn atime(&self) -> i64 {
        match self {
            Metadata::Real(m) => m.atime(),
            Metadata::Sim(s) => s.atime.div_euclid(1_000_000_000),
        }
    }
    fn atime_nsec(&self) -> i64 {
        match self {
            Metadata::Real(m) => m.atime_nsec(),
            Metadata::Sim(s) => s.atime.rem_euclid(1_000_000_000),
        }
    }
    fn mtime(&self) -> i64 {
        match self {
            Metadata::Real(m) => m.mtime(),
            Metadata::Sim(s) => s.mtime.div_euclid(1_000_000_000),
        }
    }
    fn mtime_nsec(&self) -> i64 {
        match self {
            Metadata::Real(m) => m.mtime_nsec(),
            Metadata::Sim(s) => s.mtime.rem_euclid(1_000_000_000),
        }
    }
    fn ctime(&self) -> i64 {
        match self {
            Metadata::Real(m) => m.ctime(),
            Metadata::Sim(s) => s.ctime.div_euclid(1_000_000_000),
        }
    }
    fn ctime_nsec(&self) -> i64 {
        match self {
            Metadata::Real(m) => m.ctime_nsec(),
            Metadata::Sim(s) => s.ctime.rem_euclid(1_000_000_000),
        }
    }
    fn blksize(&self) -> u64 {
        4096
    }
    fn blocks(&self) -> u64 {
        (self.len() + 511) / 512
    }
}

// ----------------------------------------------------------------------
// Directory iteration
// ----------------------------------------------------------------------

pub enum DirEntry {
    Real(::std::fs::DirEntry),
    Sim {
        sim: Arc<Sim>,
        proc: usize,
        dir: PathBuf,
        name: String,
        ino: u64,
        is_dir: bool,
    },
}

impl ::std::fmt::Debug for DirEntry {
    fn fmt(&self, f: &mut ::std::fmt::Formatter<'_>) -> ::std::fmt::Result {
        write!(f, "DirEntry({:?})", self.path())
    }
}

impl DirEntry {
    pub fn path(&self) -> PathBuf {
        match self {
            DirEntry::Real(d) => d.path(),
            DirEntry::Sim { dir, name, .. } => dir.join(dec_name(name)),
        }
    }
    pub fn file_name(&self) -> OsString {
        match self {
            DirEntry::Real(d) => d.file_name(),
            DirEntry::Sim { name, .. } => dec_name(name),
        }
    }
    pub fn file_type(&self) -> io::Result<FileType> {
        match self {
            DirEntry::Real(d) => d.file_type().map(FileType::from_real),
            DirEntry::Sim { is_dir, .. } => Ok(FileType {
                dir: *is_dir,
                file: !*is_dir,
                symlink: false,
            }),
        }
    }
    /// fstatat(dirfd, name, AT_SYMLINK_NOFOLLOW)
    pub fn metadata(&self) -> io::Result<Metadata> {
        match self {
            DirEntry::Real(d) => d.metadata().map(Metadata::Real),
            DirEntry::Sim { sim, proc, .. } => {
                let ctx = sim_ctx(sim, *proc);
                let p = path_str(&self.path())?;
                let mut req = Req::path(&p);
                req.arg = 1;
                ctx.sim
                    .call(&ctx, K::FstatAt, req, true, |st, p, r| k::k_stat(st, p, r))
                    .map(Metadata::Sim)
            }
        }
    }
    pub fn ino(&self) -> u64 {
        match self {
            DirEntry::Real(d) => ::std::os::unix::fs::DirEntryExt::ino(d),
            DirEntry::Sim { ino, .. } => *ino,
        }
    }
}

fn sim_ctx(sim: &Arc<Sim>, proc: usize) -> Ctx {
    match k::current() {
        Some(c) if Arc::ptr_eq(&c.sim, sim) => Ctx { proc, ..c },
        _ => Ctx {
            sim: sim.clone(),
            part: None,
            proc,
            op: 0,
            lib: false,
        },
    }
}

pub enum ReadDir {
    Real(::std::fs::ReadDir),
    Sim {
        sim: Arc<Sim>,
        proc: usize,
        fd: i32,
        dir: PathBuf,
        buf: ::std::collections::VecDeque<(String, u64, bool)>,
        done: bool,
    },
}

impl ::std::fmt::Debug for ReadDir {
    fn fmt(&self, f: &mut ::std::fmt::Formatter<'_>) -> ::std::fmt::Result {
        write!(f, "ReadDir")
    }
}

impl Iterator for ReadDir {
    type Item = io::Result<DirEntry>;
    fn next(&mut self) -> Option<io::Result<DirEntry>> {
        match self {
            ReadDir::Real(r) => r.next().map(|e| e.map(DirEntry::Real)),
            ReadDir::Sim {
                sim,
                proc,
                fd,
                dir,
                buf,
                done,
            } => {
                if buf.is_empty() && !*done {
                    let ctx = sim_ctx(sim, *proc);
                    match ctx
                        .sim
                        .call(&ctx, K::Readdir, Req::fd(*fd), true, |st, p, r| k::k_readdir(st, p, r))
                    {
                        Ok(batch) => {
                            if batch.is_empty() {
                                *done = true;
                            }
                            buf.extend(batch);
                        }
                        Err(e) => {
                            // std ends the stream after reporting an error
                            *done = true;
                            return Some(Err(e));
                        }
                    }
                }
                buf.pop_front().map(|(name, ino, is_dir)| {
                    Ok(DirEntry::Sim {
                        sim: sim.clone(),
                        proc: *proc,
                        dir: dir.clone(),
                        name,
                        ino,
                        is_dir,
                    })
                })
            }
        }
    }
}

impl Drop for ReadDir {
    fn drop(&mut self) {
        if let ReadDir::Sim { sim, proc, fd, .. } = self {
            let ctx = sim_ctx(sim, *proc);
            {
                let st = sim.lock();
                let dead = st.procs[*proc].dead
                    || ctx
                        .part
                        .map(|p| st.parts.get(p).map(|x| x.dead).unwrap_or(false))
                        .unwrap_or(false);
                if dead {
                    return;
                }
            }
            let _ = ctx
                .sim
                .call(&ctx, K::Closedir, Req::fd(*fd), true, |st, p, r| k::k_close(st, p, r));
        }
    }
}

pub fn read_dir<P: AsRef<Path>>(path: P) -> io::Result<ReadDir> {
    let path = path.as_ref();
    let ctx = match k::current() {
        None => return ::std::fs::read_dir(path).map(ReadDir::Real),
        Some(c) => c,
    };
    let p = path_str(path)?;
    let fd = ctx
        .sim
        .call(&ctx, K::Opendir, Req::path(&p), true, |st, p, r| k::k_opendir(st, p, r))?;
    Ok(ReadDir::Sim {
        sim: ctx.sim.clone(),
        proc: ctx.proc,
        fd,
        dir: path.to_path_buf(),
        buf: Default::default(),
        done: false,
    })
}

// ----------------------------------------------------------------------
// Free functions
// ----------------------------------------------------------------------

pub fn metadata<P: AsRef<Path>>(path: P) -> io::Result<Metadata> {
    let path = path.as_ref();
    match k::current() {
        None => ::std::fs::metadata(path).map(Metadata::Real),
        Some(ctx) => {
            let p = path_str(path)?;
            ctx.sim
                .call(&ctx, K::Stat, Req::path(&p), true, |st, p, r| k::k_stat(st, p, r))
                .map(Metadata::Sim)
        }
    }
}

pub fn symlink_metadata<P: AsRef<Path>>(path: P) -> io::Result<Metadata> {
    let path = path.as_ref();
    match k::current() {
        None => ::std::fs::symlink_metadata(path).map(Metadata::Real),
        Some(ctx) => {
            let p = path_str(path)?;
            let mut req = Req::path(&p);
            req.arg = 1;
            ctx.sim
                .call(&ctx, K::Lstat, req, true, |st, p, r| k::k_stat(st, p, r))
                .map(Metadata::Sim)
        }
    }
}

pub fn exists<P: AsRef<Path>>(path: P) -> io::Result<bool> {
    match metadata(path) {
        Ok(_) => Ok(true),
        Err(e) if e.kind() == io::ErrorKind::NotFound => Ok(false),
        Err(e) => Err(e),
    }
}

pub fn remove_file<P: AsRef<Path>>(path: P) -> io::Result<()> {
    let path = path.as_ref();
    match k::current() {
        None => ::std::fs::remove_file(path),
        Some(ctx) => {
            let p = path_str(path)?;
            ctx.sim
                .call(&ctx, K::Unlink, Req::path(&p), true, |st, p, r| k::k_unlink(st, p, r))
        }
    }
}

pub fn remove_dir<P: AsRef<Path>>(path: P) -> io::Result<()> {
    let path = path.as_ref();
    match k::current() {
        None => ::std::fs::remove_dir(path),
        Some(ctx) => {
            let p = path_str(path)?;
            ctx.sim
                .call(&ctx, K::Rmdir, Req::path(&p), true, |st, p, r| k::k_rmdir(st, p, r))
        }
    }
}

pub fn remove_dir_all<P: AsRef<Path>>(path: P) -> io::Result<()> {
    let path = path.as_ref();
    if !k::attached() {
        return ::std::fs::remove_dir_all(path);
    }
    for entry in read_dir(path)? {
        let entry = entry?;
        if entry.file_type()?.is_dir() {
            remove_dir_all(entry.path())?;
        } else {
            remove_file(entry.path())?;
        }
    }
    remove_dir(path)
}

pub fn rename<P: AsRef<Path>, Q: AsRef<Path>>(from: P, to: Q) -> io::Result<()> {
    let (from, to) = (from.as_ref(), to.as_ref());
    match k::current() {
        None => ::std::fs::rename(from, to),
        Some(ctx) => {
            let mut req = Req::path(&path_str(from)?);
            req.raw2 = path_str(to)?;
            ctx.sim
                .call(&ctx, K::Rename, req, true, |st, p, r| k::k_rename(st, p, r))
        }
    }
}

pub fn hard_link<P: AsRef<Path>, Q: AsRef<Path>>(original: P, link: Q) -> io::Result<()> {
    let (from, to) = (original.as_ref(), link.as_ref());
    match k::current() {
        None => ::std::fs::hard_link(from, to),
        Some(ctx) => {
            let mut req = Req::path(&path_str(from)?);
            req.raw2 = path_str(to)?;
            ctx.sim.call(&ctx, K::Link, req, true, |st, p, r| k::k_link(st, p, r))
        }
    }
}

pub fn set_permissions<P: AsRef<Path>>(path: P, perm: Permissions) -> io::Result<()> {
    let path = path.as_ref();
    match k::current() {
        None => ::std::fs::set_permissions(path, perm),
        Some(ctx) => {
            let mut req = Req::path(&path_str(path)?);
            req.arg = (perm.mode() & 0o7777) as u64;
            ctx.sim.call(&ctx, K::Chmod, req, true, |st, p, r| k::k_chmod(st, p, r))
        }
    }
}

pub fn create_dir<P: AsRef<Path>>(path: P) -> io::Result<()> {
    let path = path.as_ref();
    match k::current() {
        None => ::std::fs::create_dir(path),
        Some(ctx) => {
            let mut req = Req::path(&path_str(path)?);
            req.arg = 0o777;
            ctx.sim.call(&ctx, K::Mkdir, req, true, |st, p, r| k::k_mkdir(st, p, r))
        }
    }
}

fn is_dir(path: &Path) -> bool {
    metadata(path).map(|m| m.is_dir()).unwrap_or(false)
}

/// Port of `DirBuilder::create_dir_all` (library/std/src/fs.rs).
pub fn create_dir_all<P: AsRef<Path>>(path: P) -> io::Result<()> {
    let path = path.as_ref();
    if !k::attached() {
        return ::std::fs::create_dir_all(path);
    }
    if path == Path::new("") {
        return Ok(());
    }
    match create_dir(path) {
        Ok(()) => return Ok(()),
        Err(ref e) if e.kind() == io::ErrorKind::NotFound => {}
        Err(_) if is_dir(path) => return Ok(()),
        Err(e) => return Err(e),
    }
    match path.parent() {
        Some(p) => create_dir_all(p)?,
        None => {
            return Err(io::Error::new(
                io::ErrorKind::Other,
                "failed to create whole tree",
            ));
        }
    }
    match create_dir(path) {
        Ok(()) => Ok(()),
        Err(_) if is_dir(path) => Ok(()),
        Err(e) => Err(e),
    }
}

pub fn read<P: AsRef<Path>>(path: P) -> io::Result<Vec<u8>> {
    let path = path.as_ref();
    if !k::attached() {
        return ::std::fs::read(path);
    }
    let mut f = File::open(path)?;
    let _ = f.metadata();
    let mut v = Vec::new();
    f.read_to_end(&mut v)?;
    Ok(v)
}

pub fn read_to_string<P: AsRef<Path>>(path: P) -> io::Result<String> {
    let v = read(path)?;
    String::from_utf8(v).map_err(|_| io::Error::new(io::ErrorKind::InvalidData, "stream did not contain valid UTF-8"))
}

pub fn write<P: AsRef<Path>, C: AsRef<[u8]>>(path: P, contents: C) -> io::Result<()> {
    let path = path.as_ref();
    if !k::attached() {
        return ::std::fs::write(path, contents);
    }
    File::create(path)?.write_all(contents.as_ref())
}

pub fn copy<P: AsRef<Path>, Q: AsRef<Path>>(from: P, to: Q) -> io::Result<u64> {
    let (from, to) = (from.as_ref(), to.as_ref());
    if !k::attached() {
        return ::std::fs::copy(from, to);
    }
    use ::std::os::unix::fs::OpenOptionsExt;
    let mut reader = File::open(from)?;
    let meta = reader.metadata()?;
    if !meta.is_file() {
        return Err(io::Error::new(
            io::ErrorKind::InvalidInput,
            "the source path is neither a regular file nor a symlink to a regular file",
        ));
    }
    let perm = meta.permissions();
    let mut writer = OpenOptions::new()
        .mode(perm.mode() & 0o7777)
        .write(true)
        .create(true)
        .truncate(true)
        .open(to)?;
    let n = io::copy(&mut reader, &mut writer)?;
    writer.set_permissions(perm)?;
    Ok(n)
}

/// `std::os::unix::fs::symlink` look-alike for the harness and the
/// conformance self-test (the library itself never creates links).
pub fn symlink<P: AsRef<Path>, Q: AsRef<Path>>(target: P, link: Q) -> io::Result<()> {
    let (target, link) = (target.as_ref(), link.as_ref());
    match k::current() {
        None => ::std::os::unix::fs::symlink(target, link),
        Some(ctx) => {
            let t = path_str(target)?;
            let l = path_str(link)?;
            let mut st = ctx.sim.lock();
            match st.fs.resolve(&l) {
                Err(e) => eio(e),
                Ok(r) if r.ino.is_some() => eio(libc::EEXIST),
                Ok(r) if r.must_be_dir => eio(libc::ENOENT),
                Ok(_) => {
                    let now = st.fs.now;
                    st.fs.plant_symlink(&l, &t, now);
                    Ok(())
                }
            }
        }
    }
}

pub fn canonicalize<P: AsRef<Path>>(path: P) -> io::Result<PathBuf> {
    let path = path.as_ref();
    match k::current() {
        None => ::std::fs::canonicalize(path),
        Some(ctx) => {
            let p = path_str(path)?;
            let st = ctx.sim.lock();
            match st.fs.resolve(&p) {
                Ok(r) if r.ino.is_some() => Ok(PathBuf::from(r.canon)),
                Ok(_) => eio(libc::ENOENT),
                Err(e) => eio(e),
            }
        }
    }
}
