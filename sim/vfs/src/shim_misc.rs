//! Look-alikes for `std::time::SystemTime`, `filetime`, `tempfile`,
//! `libc::close` and `rand::thread_rng`.

use crate::kernel::{self as k, Req, K};
use crate::shim_fs::{File, Metadata, OpenOptions};
use crate::simfs::{Ts, UTIME_OMIT};
use ::std::io;
use ::std::path::{Path, PathBuf};

pub mod time {
    use super::*;
    pub use ::std::time::{Duration, Instant, SystemTimeError};
    use ::std::ops::{Add, AddAssign, Sub, SubAssign};

    /// Wrapper around the real `SystemTime`; only `now()` differs (it reads
    /// the simulated clock when a simulator is attached).
    #[derive(Clone, Copy, Debug, PartialEq, Eq, PartialOrd, Ord, Hash)]
    pub struct SystemTime(pub ::std::time::SystemTime);

    pub const UNIX_EPOCH: SystemTime = SystemTime(::std::time::UNIX_EPOCH);

    impl SystemTime {
        pub const UNIX_EPOCH: SystemTime = SystemTime(::std::time::UNIX_EPOCH);

        pub fn now() -> SystemTime {
            match k::current() {
                None => SystemTime(::std::time::SystemTime::now()),
                Some(ctx) => SystemTime::from_ns(ctx.sim.now()),
            }
        }
        pub fn from_ns(ns: Ts) -> SystemTime {
            if ns >= 0 {
                SystemTime(::std::time::UNIX_EPOCH + Duration::from_nanos(ns as u64))
            } else {
                SystemTime(::std::time::UNIX_EPOCH - Duration::from_nanos(ns.unsigned_abs()))
            }
        }
        pub fn to_ns(&self) -> Ts {
            match self.0.duration_since(::std::time::UNIX_EPOCH) {
                Ok(d) => d.as_nanos() as Ts,
                Err(e) => -(e.duration().as_nanos() as Ts),
            }
        }
        pub fn duration_since(&self, earlier: SystemTime) -> Result<Duration, SystemTimeError> {
            self.0.duration_since(earlier.0)
        }
        pub fn elapsed(&self) -> Result<Duration, SystemTimeError> {
            SystemTime::now().duration_since(*self)
        }
        pub fn checked_add(&self, d: Duration) -> Option<SystemTime> {
            self.0.checked_add(d).map(SystemTime)
        }
        pub fn checked_sub(&self, d: Duration) -> Option<SystemTime> {
            self.0.checked_sub(d).map(SystemTime)
        }
    }

    impl Add<Duration> for SystemTime {
        type Output = SystemTime;
        fn add(self, d: Duration) -> SystemTime {
            SystemTime(self.0 + d)
        }
    }
    impl Sub<Duration> for SystemTime {
        type Output = SystemTime;
        fn sub(self, d: Duration) -> SystemTime {
            SystemTime(self.0 - d)
        }
    }
    impl AddAssign<Duration> for SystemTime {
        fn add_assign(&mut self, d: Duration) {
            self.0 += d;
        }
    }
    impl SubAssign<Duration> for SystemTime {
        fn sub_assign(&mut self, d: Duration) {
            self.0 -= d;
        }
    }
    impl From<::std::time::SystemTime> for SystemTime {
        fn from(t: ::std::time::SystemTime) -> SystemTime {
            SystemTime(t)
        }
    }
}

/// Port of the parts of `filetime` 0.2 that matter (src/lib.rs and
/// src/unix/linux.rs: `utimensat`/`futimens` with `UTIME_OMIT`).
pub mod filetime {
    use super::*;

    #[derive(Clone, Copy, Debug, PartialEq, Eq, PartialOrd, Ord, Hash)]
    pub struct FileTime {
        seconds: i64,
        nanos: u32,
    }

    impl FileTime {
        pub const fn zero() -> FileTime {
            FileTime { seconds: 0, nanos: 0 }
        }
        pub fn now() -> FileTime {
            FileTime::from_system_time(super::time::SystemTime::now())
        }
        pub const fn from_unix_time(seconds: i64, nanos: u32) -> FileTime {
            FileTime { seconds, nanos }
        }
        pub fn from_ns(ns: Ts) -> FileTime {
            FileTime {
                seconds: ns.div_euclid(1_000_000_000),
                nanos: ns.rem_euclid(1_000_000_000) as u32,
            }
        }
        pub fn to_ns(&self) -> Ts {
            self.seconds.saturating_mul(1_000_000_000).saturating_add(self.nanos as i64)
        }
        pub fn from_system_time(t: super::time::SystemTime) -> FileTime {
            FileTime::from_ns(t.to_ns())
        }
        pub fn from_last_modification_time(meta: &Metadata) -> FileTime {
            use ::std::os::unix::fs::MetadataExt;
            FileTime {
                seconds: meta.mtime(),
                nanos: meta.mtime_nsec() as u32,
            }
        }
        pub fn from_last_access_time(meta: &Metadata) -> FileTime {
            use ::std::os::unix::fs::MetadataExt;
            FileTime {
                seconds: meta.atime(),
                nanos: meta.atime_nsec() as u32,
            }
        }
        pub fn from_creation_time(_meta: &Metadata) -> Option<FileTime> {
            None
        }
        pub const fn seconds(&self) -> i64 {
            self.seconds
        }
        pub const fn unix_seconds(&self) -> i64 {
            self.seconds
        }
        pub const fn nanoseconds(&self) -> u32 {
            self.nanos
        }
        fn real(&self) -> ::filetime::FileTime {
            ::filetime::FileTime::from_unix_time(self.seconds, self.nanos)
        }
    }

    impl ::std::fmt::Display for FileTime {
        fn fmt(&self, f: &mut ::std::fmt::Formatter<'_>) -> ::std::fmt::Result {
            write!(f, "{}.{:09}s", self.seconds, self.nanos)
        }
    }

    impl From<super::time::SystemTime> for FileTime {
        fn from(t: super::time::SystemTime) -> FileTime {
            FileTime::from_system_time(t)
        }
    }

    fn utimens_path(p: &Path, atime: Option<FileTime>, mtime: Option<FileTime>) -> io::Result<()> {
        match k::current() {
            None => match (atime, mtime) {
                (Some(a), Some(m)) => ::filetime::set_file_times(p, a.real(), m.real()),
                (Some(a), None) => ::filetime::set_file_atime(p, a.real()),
                (None, Some(m)) => ::filetime::set_file_mtime(p, m.real()),
                (None, None) => Ok(()),
            },
            Some(ctx) => {
                let s = crate::shim_fs::enc_path(p)?;
                let mut req = Req::path(&s);
                req.atime = atime.map(|t| t.to_ns()).unwrap_or(UTIME_OMIT);
                req.mtime = mtime.map(|t| t.to_ns()).unwrap_or(UTIME_OMIT);
                ctx.sim
                    .call(&ctx, K::Utimens, req, true, |st, p, r| k::k_utimens(st, p, r))
            }
        }
    }

    pub fn set_file_times<P: AsRef<Path>>(p: P, atime: FileTime, mtime: FileTime) -> io::Result<()> {
        utimens_path(p.as_ref(), Some(atime), Some(mtime))
    }
    pub fn set_file_atime<P: AsRef<Path>>(p: P, atime: FileTime) -> io::Result<()> {
        utimens_path(p.as_ref(), Some(atime), None)
    }
    pub fn set_file_mtime<P: AsRef<Path>>(p: P, mtime: FileTime) -> io::Result<()> {
        utimens_path(p.as_ref(), None, Some(mtime))
    }
    pub fn set_symlink_file_times<P: AsRef<Path>>(p: P, atime: FileTime, mtime: FileTime) -> io::Result<()> {
        utimens_path(p.as_ref(), Some(atime), Some(mtime))
    }

    pub fn set_file_handle_times(f: &File, atime: Option<FileTime>, mtime: Option<FileTime>) -> io::Result<()> {
        match f {
            File::Real(r) => ::filetime::set_file_handle_times(r, atime.map(|t| t.real()), mtime.map(|t| t.real())),
            File::Sim(s) => {
                // filetime/src/unix/linux.rs: both None => nothing to do
                if atime.is_none() && mtime.is_none() {
                    return Ok(());
                }
                let ctx = match k::current() {
                    Some(c) if ::std::sync::Arc::ptr_eq(&c.sim, &s.sim) => k::Ctx { proc: s.proc, ..c },
                    _ => k::Ctx {
                        sim: s.sim.clone(),
                        part: None,
                        proc: s.proc,
                        op: 0,
                        lib: false,
                    },
                };
                let mut req = Req::fd(s.fd);
                req.atime = atime.map(|t| t.to_ns()).unwrap_or(UTIME_OMIT);
                req.mtime = mtime.map(|t| t.to_ns()).unwrap_or(UTIME_OMIT);
                ctx.sim
                    .call(&ctx, K::Futimens, req, true, |st, p, r| k::k_futimens(st, p, r))
            }
        }
    }
}

/// Port of the parts of `tempfile` 3.27 that matter:
/// src/file/mod.rs (`NamedTempFile`, `TempPath`), src/file/imp/unix.rs
/// (`create_named`: O_EXCL, mode 0600; `create`: O_TMPFILE), src/util.rs
/// (`create_helper`: `.tmp` + 6 alphanumerics, retry on EEXIST).
pub mod tempfile {
    use super::*;
    use ::std::fs::Permissions;
    use ::std::io::{Read, Seek, SeekFrom, Write};

    const NUM_RETRIES: u32 = 1 << 16;
    const ALNUM: &[u8] = b"abcdefghijklmnopqrstuvwxyzABCDEFGHIJKLMNOPQRSTUVWXYZ0123456789";

    fn tmpname() -> String {
        tmpname_with(".tmp", "", 6)
    }

    fn tmpname_with(prefix: &str, suffix: &str, rand_len: usize) -> String {
        if rand_len != 6 {
            // generic length: one draw per character
            let mut s = String::from(prefix);
            for _ in 0..rand_len {
                let c = match k::current() {
                    Some(ctx) => ctx.sim.lock().tape.draw(62) as usize,
                    None => {
                        use ::rand::Rng;
                        ::rand::thread_rng().gen_range(0..62)
                    }
                };
                s.push(ALNUM[c] as char);
            }
            s.push_str(suffix);
            return s;
        }
        let mut s = String::from(prefix);
        match k::current() {
            Some(ctx) => {
                // one draw per name; a per-run counter keeps names distinct
                // even when the tape is exhausted (replay default 0).
                let mut st = ctx.sim.lock();
                let space = 62u64.pow(6);
                let d = st.tape.draw(space);
                st.tmp_counter += 1;
                let mut v = (d + st.tmp_counter.wrapping_mul(0x9e3779b1)) % space;
                for _ in 0..6 {
                    s.push(ALNUM[(v % 62) as usize] as char);
                    v /= 62;
                }
            }
            None => {
                use ::rand::Rng;
                let mut r = ::rand::thread_rng();
                for _ in 0..6 {
                    s.push(ALNUM[r.gen_range(0..62)] as char);
                }
            }
        }
        s.push_str(suffix);
        s
    }

    fn create_helper<R>(base: &Path, f: impl FnMut(PathBuf) -> io::Result<R>) -> io::Result<R> {
        create_helper_with(base, ".tmp", "", 6, f)
    }

    fn create_helper_with<R>(base: &Path, prefix: &str, suffix: &str, rand_len: usize, mut f: impl FnMut(PathBuf) -> io::Result<R>) -> io::Result<R> {
        let base: PathBuf = if base.is_absolute() {
            base.to_path_buf()
        } else if k::attached() {
            Path::new("/").join(base)
        } else {
            ::std::env::current_dir()?.join(base)
        };
        for _ in 0..NUM_RETRIES {
            let path = base.join(tmpname_with(prefix, suffix, rand_len));
            return match f(path) {
                Err(ref e) if e.kind() == io::ErrorKind::AlreadyExists => continue,
                Err(ref e) if e.kind() == io::ErrorKind::AddrInUse => continue,
                res => res,
            };
        }
        Err(io::Error::new(
            io::ErrorKind::AlreadyExists,
            "too many temporary files exist",
        ))
    }

    fn create_named(path: &Path) -> io::Result<File> {
        use ::std::os::unix::fs::OpenOptionsExt;
        OpenOptions::new()
            .read(true)
            .write(true)
            .create_new(true)
            .mode(0o600)
            .open(path)
    }

    #[derive(Debug)]
    pub struct TempPath {
        path: PathBuf,
        keep: bool,
    }

    impl TempPath {
        pub fn from_path(path: impl Into<PathBuf>) -> TempPath {
            TempPath {
                path: path.into(),
                keep: false,
            }
        }
        pub fn close(mut self) -> io::Result<()> {
            let r = crate::shim_fs::remove_file(&self.path);
            self.keep = true;
            r
        }
        pub fn keep(mut self) -> Result<PathBuf, PathPersistError> {
            self.keep = true;
            Ok(::std::mem::take(&mut self.path))
        }
        pub fn persist<P: AsRef<Path>>(mut self, new_path: P) -> Result<(), PathPersistError> {
            match crate::shim_fs::rename(&self.path, new_path.as_ref()) {
                Ok(()) => {
                    self.keep = true;
                    Ok(())
                }
                Err(error) => Err(PathPersistError { error, path: self }),
            }
        }
        pub fn disable_cleanup(&mut self, v: bool) {
            self.keep = v;
        }
    }

    impl Drop for TempPath {
        fn drop(&mut self) {
            if !self.keep {
                let _ = crate::shim_fs::remove_file(&self.path);
            }
        }
    }

    impl ::std::ops::Deref for TempPath {
        type Target = Path;
        fn deref(&self) -> &Path {
            &self.path
        }
    }
    impl AsRef<Path> for TempPath {
        fn as_ref(&self) -> &Path {
            &self.path
        }
    }
    impl AsRef<::std::ffi::OsStr> for TempPath {
        fn as_ref(&self) -> &::std::ffi::OsStr {
            self.path.as_os_str()
        }
    }

    #[derive(Debug)]
    pub struct PathPersistError {
        pub error: io::Error,
        pub path: TempPath,
    }
    impl ::std::fmt::Display for PathPersistError {
        fn fmt(&self, f: &mut ::std::fmt::Formatter<'_>) -> ::std::fmt::Result {
            write!(f, "failed to persist temporary file path: {}", self.error)
        }
    }
    impl ::std::error::Error for PathPersistError {}
    impl From<PathPersistError> for io::Error {
        fn from(e: PathPersistError) -> io::Error {
            e.error
        }
    }

    #[derive(Debug)]
    pub struct PersistError {
        pub error: io::Error,
        pub file: NamedTempFile,
    }
    impl ::std::fmt::Display for PersistError {
        fn fmt(&self, f: &mut ::std::fmt::Formatter<'_>) -> ::std::fmt::Result {
            write!(f, "failed to persist temporary file: {}", self.error)
        }
    }
    impl ::std::error::Error for PersistError {}
    impl From<PersistError> for io::Error {
        fn from(e: PersistError) -> io::Error {
            e.error
        }
    }

    #[derive(Debug)]
    pub struct NamedTempFile {
        path: TempPath,
        file: File,
    }

    /// `tempfile::Builder`: prefix / suffix / rand_bytes / permissions, named
    /// and anonymous files in a given directory.
    #[derive(Debug, Clone)]
    pub struct Builder<'a, 'b> {
        prefix: &'a str,
        suffix: &'b str,
        rand_len: usize,
        mode: Option<u32>,
    }

    impl Default for Builder<'_, '_> {
        fn default() -> Self {
            Builder { prefix: ".tmp", suffix: "", rand_len: 6, mode: None }
        }
    }

    impl<'a, 'b> Builder<'a, 'b> {
        pub fn new() -> Self {
            Self::default()
        }
        pub fn prefix(&mut self, prefix: &'a str) -> &mut Self {
            self.prefix = prefix;
            self
        }
        pub fn suffix(&mut self, suffix: &'b str) -> &mut Self {
            self.suffix = suffix;
            self
        }
        pub fn rand_bytes(&mut self, n: usize) -> &mut Self {
            self.rand_len = n;
            self
        }
        pub fn permissions(&mut self, p: Permissions) -> &mut Self {
            use ::std::os::unix::fs::PermissionsExt;
            self.mode = Some(p.mode());
            self
        }
        pub fn tempfile(&self) -> io::Result<NamedTempFile> {
            let dir = if k::attached() { PathBuf::from("/tmp") } else { ::std::env::temp_dir() };
            self.tempfile_in(dir)
        }
        pub fn tempfile_in<P: AsRef<Path>>(&self, dir: P) -> io::Result<NamedTempFile> {
            if !k::attached() {
                // passthrough: the real crate, then adopt its file and path
                let mut b = ::tempfile::Builder::new();
                b.prefix(self.prefix).suffix(self.suffix).rand_bytes(self.rand_len);
                let (f, p) = b.tempfile_in(dir)?.into_parts();
                let path = p.keep().map_err(|e| e.error)?;
                let file = File::Real(f);
                if let Some(m) = self.mode {
                    use ::std::os::unix::fs::PermissionsExt;
                    file.set_permissions(Permissions::from_mode(m))?;
                }
                return Ok(NamedTempFile { path: TempPath { path, keep: false }, file });
            }
            let mode = self.mode.unwrap_or(0o600);
            create_helper_with(dir.as_ref(), self.prefix, self.suffix, self.rand_len, |path| {
                use ::std::os::unix::fs::OpenOptionsExt;
                let file = OpenOptions::new().read(true).write(true).create_new(true).mode(mode).open(&path)?;
                Ok(NamedTempFile { path: TempPath { path, keep: false }, file })
            })
        }
    }

    impl NamedTempFile {
        pub fn new() -> io::Result<NamedTempFile> {
            let dir = if k::attached() {
                PathBuf::from("/tmp")
            } else {
                ::std::env::temp_dir()
            };
            NamedTempFile::new_in(dir)
        }
        pub fn new_in<P: AsRef<Path>>(dir: P) -> io::Result<NamedTempFile> {
            create_helper(dir.as_ref(), |path| {
                let file = create_named(&path)?;
                Ok(NamedTempFile {
                    path: TempPath { path, keep: false },
                    file,
                })
            })
        }
        pub fn path(&self) -> &Path {
            &self.path.path
        }
        pub fn as_file(&self) -> &File {
            &self.file
        }
        pub fn as_file_mut(&mut self) -> &mut File {
            &mut self.file
        }
        pub fn into_file(self) -> File {
            self.file
        }
        pub fn into_temp_path(self) -> TempPath {
            self.path
        }
        pub fn into_parts(self) -> (File, TempPath) {
            (self.file, self.path)
        }
        pub fn from_parts(file: File, path: TempPath) -> NamedTempFile {
            NamedTempFile { path, file }
        }
        pub fn close(self) -> io::Result<()> {
            let NamedTempFile { path, .. } = self;
            path.close()
        }
        pub fn reopen(&self) -> io::Result<File> {
            OpenOptions::new().read(true).write(true).open(self.path())
        }
        pub fn keep(self) -> Result<(File, PathBuf), PersistError> {
            let NamedTempFile { path, file } = self;
            match path.keep() {
                Ok(p) => Ok((file, p)),
                Err(e) => Err(PersistError {
                    error: e.error,
                    file: NamedTempFile { path: e.path, file },
                }),
            }
        }
        pub fn persist<P: AsRef<Path>>(self, new_path: P) -> Result<File, PersistError> {
            let NamedTempFile { path, file } = self;
            match path.persist(new_path) {
                Ok(()) => Ok(file),
                Err(e) => Err(PersistError {
                    error: e.error,
                    file: NamedTempFile { path: e.path, file },
                }),
            }
        }
        pub fn disable_cleanup(&mut self, v: bool) {
            self.path.disable_cleanup(v)
        }
    }

    impl Read for NamedTempFile {
        fn read(&mut self, buf: &mut [u8]) -> io::Result<usize> {
            self.file.read(buf)
        }
    }
    impl Write for NamedTempFile {
        fn write(&mut self, buf: &[u8]) -> io::Result<usize> {
            self.file.write(buf)
        }
        fn flush(&mut self) -> io::Result<()> {
            self.file.flush()
        }
    }
    impl Seek for NamedTempFile {
        fn seek(&mut self, pos: SeekFrom) -> io::Result<u64> {
            self.file.seek(pos)
        }
    }
    impl AsRef<Path> for NamedTempFile {
        fn as_ref(&self) -> &Path {
            self.path()
        }
    }

    /// `tempfile::tempfile_in`: O_TMPFILE, falling back to create+unlink.
    pub fn tempfile_in<P: AsRef<Path>>(dir: P) -> io::Result<File> {
        let dir = dir.as_ref();
        if !k::attached() {
            return ::tempfile::tempfile_in(dir).map(File::Real);
        }
        use ::std::os::unix::fs::OpenOptionsExt;
        OpenOptions::new()
            .read(true)
            .write(true)
            .mode(0o600)
            .custom_flags(libc::O_TMPFILE)
            .open(dir)
            .or_else(|e| match e.raw_os_error() {
                Some(libc::EOPNOTSUPP) | Some(libc::EISDIR) | Some(libc::ENOENT) => {
                    create_helper(dir, |path| {
                        let f = create_named(&path)?;
                        let _ = crate::shim_fs::remove_file(&path);
                        Ok(f)
                    })
                }
                _ => Err(e),
            })
    }

    pub fn tempfile() -> io::Result<File> {
        if !k::attached() {
            return ::tempfile::tempfile().map(File::Real);
        }
        tempfile_in("/tmp")
    }

    /// Minimal `TempDir` (tests only; passthrough when unattached).
    #[derive(Debug)]
    pub struct TempDir {
        path: PathBuf,
    }
    impl TempDir {
        pub fn new() -> io::Result<TempDir> {
            let base = if k::attached() {
                PathBuf::from("/tmp")
            } else {
                ::std::env::temp_dir()
            };
            TempDir::new_in(base)
        }
        pub fn new_in<P: AsRef<Path>>(dir: P) -> io::Result<TempDir> {
            create_helper(dir.as_ref(), |path| {
                crate::shim_fs::create_dir(&path)?;
                Ok(TempDir { path })
            })
        }
        pub fn path(&self) -> &Path {
            &self.path
        }
    }
    impl Drop for TempDir {
        fn drop(&mut self) {
            let _ = crate::shim_fs::remove_dir_all(&self.path);
        }
    }
    pub fn tempdir() -> io::Result<TempDir> {
        TempDir::new()
    }
}

/// `libc` with `close` (and the lock calls, for the no-lock invariant)
/// routed to the simulator.
pub mod libc_shim {
    pub use ::libc::*;
    use super::*;

    fn set_errno(e: i32) {
        unsafe { *::libc::__errno_location() = e };
    }

    /// # Safety
    /// Same contract as `libc::close`.
    pub unsafe fn close(fd: i32) -> i32 {
        match k::current() {
            None => ::libc::close(fd),
            Some(ctx) => {
                // (a number that is not open goes through the simulated kernel
                //  too: it answers EBADF, and the call shows in the trace)
                match ctx
                    .sim
                    .call(&ctx, K::Close, Req::fd(fd), true, |st, p, r| k::k_close(st, p, r))
                {
                    Ok(()) => 0,
                    Err(e) => {
                        set_errno(e.raw_os_error().unwrap_or(::libc::EIO));
                        -1
                    }
                }
            }
        }
    }

    fn lock_call(fd: i32, what: u64) -> Option<i32> {
        let ctx = k::current()?;
        let mut req = Req::fd(fd);
        req.arg = what;
        let r = ctx.sim.call(&ctx, K::Lock, req, true, |st, _p, _r| {
            st.locks += 1;
            Ok(((), k::Out::default()))
        });
        Some(match r {
            Ok(()) => 0,
            Err(e) => {
                set_errno(e.raw_os_error().unwrap_or(::libc::EIO));
                -1
            }
        })
    }

    /// # Safety
    /// Same contract as `libc::flock`.
    pub unsafe fn flock(fd: i32, op: i32) -> i32 {
        match lock_call(fd, 10 + op as u64) {
            Some(r) => r,
            None => ::libc::flock(fd, op),
        }
    }

    /// # Safety
    /// Same contract as `libc::lockf`.
    pub unsafe fn lockf(fd: i32, cmd: i32, len: ::libc::off_t) -> i32 {
        match lock_call(fd, 100 + cmd as u64) {
            Some(r) => r,
            None => ::libc::lockf(fd, cmd, len),
        }
    }
}

/// `rand` with a scripted `thread_rng`.
pub mod rand_shim {
    pub use ::rand::*;
    use super::*;

    pub struct SimThreadRng {
        real: Option<::rand::rngs::ThreadRng>,
        /// which of the library's two consumers is drawing
        source: Source,
    }

    #[derive(Clone, Copy, PartialEq, Eq)]
    enum Source {
        Trigger,
        Shard,
        Other,
    }

    impl SimThreadRng {
        fn draw(&mut self) -> u64 {
            match k::current() {
                None => {
                    if self.real.is_none() {
                        self.real = Some(::rand::thread_rng());
                    }
                    ::rand::RngCore::next_u64(self.real.as_mut().unwrap())
                }
                Some(ctx) => {
                    let mut st = ctx.sim.lock();
                    let st = &mut *st;
                    let p = &mut st.procs[ctx.proc];
                    p.rand_draws += 1;
                    // Many draws without a filesystem call in between means the
                    // library is rejection-sampling: a scripted constant (or an
                    // exhausted replay tape) would make it spin forever, so the
                    // source starts to vary deterministically.
                    if p.last_draw_call == p.calls {
                        p.draws_since_call += 1;
                    } else {
                        p.last_draw_call = p.calls;
                        p.draws_since_call = 0;
                    }
                    if p.draws_since_call > 12 {
                        let mut x = p.rand_draws.wrapping_mul(0x9e3779b97f4a7c15);
                        x = (x ^ (x >> 30)).wrapping_mul(0xbf58476d1ce4e5b9);
                        x = (x ^ (x >> 27)).wrapping_mul(0x94d049bb133111eb);
                        return (x ^ (x >> 31)) | 1;
                    }
                    let (script, default) = match self.source {
                        Source::Trigger => (&mut p.trigger_script, p.trigger_default),
                        Source::Shard | Source::Other => (&mut p.shard_script, p.shard_default),
                    };
                    if !script.is_empty() {
                        return script.remove(0);
                    }
                    match default {
                        k::DrawPolicy::Const(v) => v,
                        k::DrawPolicy::Tape => {
                            // The library redraws while it gets 0; an
                            // exhausted replay tape yields 0 forever, so
                            // a run of zeros is cut short.
                            let v = st.tape.draw_u64();
                            if v == 0 {
                                p.zero_streak += 1;
                                if p.zero_streak > 2 {
                                    return 1;
                                }
                            } else {
                                p.zero_streak = 0;
                            }
                            v
                        }
                        k::DrawPolicy::FireMix(pm) => {
                            if st.tape.chance(pm) {
                                1
                            } else {
                                u64::MAX
                            }
                        }
                    }
                }
            }
        }
    }

    impl ::rand::RngCore for SimThreadRng {
        fn next_u32(&mut self) -> u32 {
            (self.draw() >> 32) as u32
        }
        fn next_u64(&mut self) -> u64 {
            self.draw()
        }
        fn fill_bytes(&mut self, dest: &mut [u8]) {
            for chunk in dest.chunks_mut(8) {
                let v = self.draw().to_le_bytes();
                chunk.copy_from_slice(&v[..chunk.len()]);
            }
        }
        fn try_fill_bytes(&mut self, dest: &mut [u8]) -> Result<(), ::rand::Error> {
            self.fill_bytes(dest);
            Ok(())
        }
    }

    #[track_caller]
    pub fn thread_rng() -> SimThreadRng {
        let file = ::std::panic::Location::caller().file();
        let source = if file.ends_with("trigger.rs") {
            Source::Trigger
        } else if file.ends_with("sharded.rs") {
            Source::Shard
        } else {
            Source::Other
        };
        SimThreadRng { real: None, source }
    }
}
