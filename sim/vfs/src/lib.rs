//! kismet_vfs: the seam between kismet-cache and the deterministic
//! simulator.  With `--cfg kismet_verif`, each module of /repo/src gets
//! `use kismet_vfs::{std, filetime, tempfile, libc, rand};`, which shadows
//! the extern-prelude crates of the same names.  Everything not overridden
//! here is the real thing (glob re-exports).

pub mod kernel;
pub mod shim_fs;
pub mod shim_misc;
pub mod simfs;

/// Look-alike of the `std` crate: real `std` plus simulated `fs`/`time`.
pub mod std {
    pub use ::std::*;

    pub mod fs {
        pub use crate::shim_fs::*;
    }

    pub mod time {
        pub use crate::shim_misc::time::*;
    }
}

pub mod filetime {
    pub use crate::shim_misc::filetime::*;
}

pub mod tempfile {
    pub use crate::shim_misc::tempfile::*;
}

pub mod libc {
    pub use crate::shim_misc::libc_shim::*;
}

pub mod rand {
    pub use crate::shim_misc::rand_shim::*;
}
