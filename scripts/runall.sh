#!/bin/bash
# Runs every registered check (quick by default) and prints one line each.
TIER="${1:-quick}"
cd /verif || exit 2
fail=0
for id in $(./check list); do
  start=$(date +%s)
  out=$(./check "$id" --tier "$TIER" 2>&1); code=$?
  end=$(date +%s)
  echo "$id exit=$code $((end-start))s $(echo "$out" | tail -1)"
  if [ $code -ne 0 ]; then fail=1; echo "$out" | grep -E "VIOLATION|KNOWN-FINDING|harness error" | head -5; fi
done
exit $fail
