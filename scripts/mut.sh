#!/bin/bash
# usage: mut.sh <file-under-repo-src> <python-regex-or-literal old> <new> -- <check ids...>
# Applies a one-off textual mutation to /repo, runs the named checks (quick
# tier, reduced runs via RUNS env), prints the verdict, and reverts /repo.
set -u
FILE="$1"; OLD="$2"; NEW="$3"; shift 3; [ "$1" = "--" ] && shift
cd /repo || exit 2
python3 - "$FILE" "$OLD" "$NEW" <<'PY' || { git checkout -- . ; exit 2; }
import sys
f,old,new=sys.argv[1:4]
s=open(f).read()
if old not in s:
    print("MUTATION TARGET NOT FOUND", file=sys.stderr); sys.exit(1)
s=s.replace(old,new,1)
open(f,'w').write(s)
PY
for c in "$@"; do
  out=$(VERIF_ROOT=/tmp/vmut /verif/check "$c" ${RUNS:+--runs $RUNS} 2>&1); code=$?
  echo "[$c] exit=$code $(echo "$out" | grep -m1 -E 'violation class|harness error' | cut -c1-200)"
  echo "$out" | grep -m1 -A1 'violation class' | tail -1 | cut -c1-300
done
cd /repo && git checkout -- . 
rm -rf /tmp/vmut
# rebuild the verification binary from the restored tree
(cd /verif/sim && cargo build --release --offline -q 2>/dev/null)
