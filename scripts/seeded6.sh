#!/bin/bash
# usage: seeded.sh <ID> <demo-test-name> "<extra test args>" -- <checks to run...>
# 1. confirms in the scratch worktree /tmp/wt-<ID> that (a) the existing suite
#    passes with the patch and (b) the demonstration fails with the patch and
#    passes without it; 2. applies the patch to /repo, runs the named checks
#    (quick tier), and undoes it; 3. stores patch, demo and a log under
#    /verif/seeded/<ID>/.
# runs against patched trees must not leave their evidence behind
EVSAVE=/tmp/ev.save.$$; rm -rf "$EVSAVE"; cp -r /verif/evidence "$EVSAVE"; trap 'rm -rf /verif/evidence; mv "$EVSAVE" /verif/evidence' EXIT
ID="$1"; DEMO="$2"; EXTRA="$3"; shift 3; [ "$1" = "--" ] && shift
WT=/tmp/wt6-$ID; OUT=/tmp/out6-$ID; DST=/verif/seeded/$ID-r6
mkdir -p "$DST/demo"; LOG="$DST/confirm.log"; : > "$LOG"
export CARGO_TARGET_DIR=$WT/target CARGO_NET_OFFLINE=true
cd "$WT" || exit 2
# (the round-3 agents' shared `git stash` crossed some worktrees over: start
#  from a clean src/ and apply exactly the delivered patch)
git checkout -- src && git apply "$OUT/patch.diff"
echo "## suite with patch (lib + doc)" | tee -a "$LOG"
cargo test --offline --lib 2>&1 | grep -E "^test result" | tee -a "$LOG"
cargo test --offline --doc 2>&1 | grep -E "^test result" | tee -a "$LOG"
echo "## demo with patch (expected: FAIL)" | tee -a "$LOG"
cargo test --offline --test "$DEMO" -- $EXTRA 2>&1 | grep -E "^test result|panicked|violated|VIOLATED" | head -8 | tee -a "$LOG"
git apply -R "$OUT/patch.diff"
echo "## demo without patch (expected: pass)" | tee -a "$LOG"
cargo test --offline --test "$DEMO" -- $EXTRA 2>&1 | grep -E "^test result" | tee -a "$LOG"
git apply "$OUT/patch.diff"
cp "$OUT/patch.diff" "$DST/patch.diff"; cp -r "$OUT/demo/." "$DST/demo/"; cp "$OUT/meta.txt" "$DST/agent_meta.txt" 2>/dev/null
echo "## checks against the patch applied to /repo" | tee -a "$LOG"
unset CARGO_TARGET_DIR
cd /repo && git apply "$OUT/patch.diff" || { echo "cannot apply to /repo" | tee -a "$LOG"; exit 2; }
for c in "$@"; do
  out=$(VERIF_ROOT=/tmp/vseed /verif/check "$c" 2>&1); code=$?
  echo "[$c] exit=$code $(echo "$out" | grep -m1 -E 'violation class|harness error' | cut -c1-160)" | tee -a "$LOG"
  echo "$out" | grep -m1 -A1 'violation class' | tail -1 | cut -c1-400 | tee -a "$LOG"
done
cd /repo && git checkout -- . && git status --short
rm -rf /tmp/vseed
(cd /verif/sim && cargo build --release --offline -q 2>/dev/null)
