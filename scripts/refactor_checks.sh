#!/bin/bash
# Applies each behaviour-preserving patch under /verif/refactorings to /repo, runs every
# check at a reduced quick budget, records exit codes, and undoes the patch.  Any exit 1
# here is a FALSE ALARM of the machinery (the patches keep every property true).
# runs against patched trees must not leave their evidence behind
EVSAVE=/tmp/ev.save.$$; rm -rf "$EVSAVE"; cp -r /verif/evidence "$EVSAVE"; trap 'rm -rf /verif/evidence; mv "$EVSAVE" /verif/evidence' EXIT
cd /verif || exit 2
OUT=/verif/refactorings/results.txt; : > "$OUT"
for p in refactorings/R*.diff; do
  cd /repo && git checkout -- . && git apply "/verif/$p" || { echo "$p: cannot apply" >> "$OUT"; continue; }
  cd /verif
  line="$p:"
  for id in $(./check list); do
    out=$(VERIF_SCALE=${VERIF_SCALE:-0.3} timeout 600 ./check "$id" 2>&1); code=$?
    line="$line $id=$code"
    if [ $code -ne 0 ]; then echo "--- $p $id exit=$code" >> "$OUT.detail"; echo "$out" | grep -E "violation class|harness error|^  " | head -6 | cut -c1-400 >> "$OUT.detail"; fi
  done
  echo "$line" >> "$OUT"
  cd /repo && git checkout -- .
done
cd /verif/sim && cargo build --release --offline -q 2>/dev/null
echo DONE >> "$OUT"
