#!/bin/bash
# For every seeded change: apply its patch to /repo, run the check(s) recorded as catching
# it in meta.json (quick tier), undo the patch.  Prints one line per seeded change.
# runs against patched trees must not leave their evidence behind
EVSAVE=/tmp/ev.save.$$; rm -rf "$EVSAVE"; cp -r /verif/evidence "$EVSAVE"; trap 'rm -rf /verif/evidence; mv "$EVSAVE" /verif/evidence' EXIT
cd /verif || exit 2
OUT=/verif/seeded/regression.txt; : > "$OUT"
for d in seeded/*/; do
  id=$(basename "$d")
  checks=$(python3 -c "import json; m=json.load(open(\"/verif/$d/meta.json\")); print(\" \".join(m[\"caught_by\"].keys()))")
  cd /repo && git checkout -- . && git apply "/verif/$d/patch.diff" || { echo "$id: cannot apply" >> "$OUT"; continue; }
  cd /verif
  line="$id:"
  for c in $checks; do
    out=$(timeout 900 ./check "$c" 2>&1); code=$?
    cls=$(echo "$out" | grep -m1 -o "violation class=[a-z-]*" | cut -d= -f2)
    line="$line $c=$code($cls)"
  done
  echo "$line" >> "$OUT"
  cd /repo && git checkout -- .
done
cd /verif/sim && cargo build --release --offline -q 2>/dev/null
echo DONE >> "$OUT"
