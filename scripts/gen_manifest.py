#!/usr/bin/env python3
"""Writes /verif/MANIFEST.json from the table below (kept in one place so
that the manifest, the checks and DESIGN.md cannot drift apart)."""
import json, subprocess

HOOK_COMMITS = ["f2040df"]

FAULT_ENUM = {"C02", "C03", "C18"}

CHECKS = {
 "C01": ("5.C01", "seeded schedule search over 2-3 participants at filesystem-call granularity; content oracle on every returned handle plus I-content at every step",
         "Sampled, not exhaustive: 30k (quick) / 1.5M (thorough) seeded interleavings of short programs; every filesystem call is a scheduling point.",
         "SimFs as a model of POSIX rename/link/open atomicity; scheduling points are filesystem calls; tempfile's name uniqueness"),
 "C02": ("5.C02", "crash-point enumeration per sampled scenario (process killed at every call boundary) + validity oracle + follow-up battery by fresh processes + clock jumps for age-based reclaim",
         "Crash points are enumerated completely per scenario; scenarios (front-end x pre-state x operation x size) are sampled by seed.",
         "a crash is a process death (kernel state survives); SimFs semantics; the reference battery"),
 "C03": ("5.C03", "trace oracle (per-inode dirty bit at publication, mode, immutability) + enumeration of every fsync, publication and preparation call failing in turn + a concurrent ride-along",
         "Publishing paths are sampled by seed; for each, every fsync call of the fault-free trace is failed with each of EIO/ENOSPC/EDQUOT, every publication (rename/link onto a key) once with each of five errnos, and every preparation call (utimens/chmod/lstat) once with EIO.",
         "durability judged on call order and a dirty bit cleared by a successful fsync; power loss not simulated"),
 "C04": ("5.C04", "seeded schedule search + exact Wing-Gong linearizability check against a sequential register (ensure modelled as its non-atomic composition)",
         "Sampled interleavings of <=9-operation histories (incl. maintenance that never evicts and a two-hour stall of everybody); the linearizability search itself is exact.",
         "invoke/return stamps from the simulator's global step counter; SimFs link/rename/open atomicity"),
 "C05": ("5.C05", "seeded schedule search with an adversary participant deleting published files and stale-handle (ESTALE-for-ENOENT) mode; oracle: every operation Ok, no panic",
         "Sampled interleavings with capacity 0-2 so that every write maintains; rare-branch probes are counted in the evidence.",
         "the adversary deletes published files only; simulated time stays below the temp-file age limit"),
 "C06": ("5.C06", "seeded prefix search, then solo scheduling of one participant with all peers frozen (or killed); step bound, watchdog for in-process waits, lock-primitive interception",
         "Sampled schedule prefixes (1-120 steps) and survivors, incl. writes whose source names no file (bounded failure); the bound is fixed in the harness, not calibrated at run time.",
         "freezes happen at filesystem-call boundaries; a 10 s wall-clock watchdog converts an in-process wait into a violation"),
 "C07": ("5.C07", "seeded directory populations and maintenance entry points; independent Second Chance oracle (up to tie order) applied to every maintenance episode cut out of the call trace, plus tree diffs",
         "Sampled populations (0-12 files, many ties) x capacities x 7 entry points x 5 granularities; also every episode of the C11 histories.",
         "SimFs readdir/stat/unlink/utimens semantics; ties in rank may be ordered either way"),
 "C09": ("5.C09", "seeded sequential histories under every atime policy x granularity x clock regime; abstract queue model compared with on-disk (mtime, atime>=mtime) after every operation",
         "Sampled histories; the filesystem's atime policy, timestamp truncation and clock are simulated, which no real mount in the sandbox offers.",
         "atime policies as modelled by SimFs; monotone clock"),
 "C10": ("5.C10", "scripted adversarial random source (hook) for the trigger countdown; window/size/immediacy oracle from the call trace",
         "Sampled (capacity, write sequence, draw script) triples incl. boundary draws around multiples of the decrement and huge capacities.",
         "one trigger event per write; single writer thread"),
 "C11": ("5.C11", "seeded sequential histories over 1-3 simulated processes with mixed handles; map model with observed-and-justified evictions; disk==model after every operation",
         "Sampled histories (20-200 ops) with solved colliding hashes, scripted trigger/shard draws and diverging load estimates.",
         "same capacity/shard count for all handles on a directory; SimFs semantics"),
 "C12": ("5.C12", "independent reimplementation of the shard mapping (literal constants) vs probe paths and storage location observed in the call trace, across processes with skewed load estimates",
         "Sampled (hash, secondary hash, n) triples incl. boundary pre-images solved through the modular inverse, n up to 2^20+1, independent per-handle capacities; several simulated processes.",
         "mixer constants derived outside Rust from SHA-256 of the documented strings"),
 "C13": ("5.C13", "full configuration matrix run on fresh simulated filesystems; reference model of the stack (returned bytes, judge argument, populate's old, before/after trees)",
         "The stated matrix (9030 points) is enumerated completely in both tiers; swarm dimensions on top of it are sampled (thorough repeats the matrix 60 times).",
         "reference model of the stack; SimFs"),
 "C14": ("5.C14", "full configuration matrix with recording/panicking checkers; success iff all copies equal; comparison-graph connectivity over inode identities; trace shows later levels unopened without a checker",
         "The stated matrix (41280 points incl. three read-only levels and a fourth, lenient, checker kind) is enumerated completely; swarm dimensions (incl. a vanished scratch directory, a foreign owner, an unopenable copy) sampled.",
         "'first copy against every other' read through the statement's own quantifier (all copies identical)"),
 "C15": ("5.C15", "trace oracle (no mutating call under a read-only root) + before/after snapshots, riding on the C13/C14 matrices and on sequential histories with planted read-only roots",
         "Both matrices once (20x in thorough) with extras (invalid names, missing directories) plus sampled histories.",
         "read-only roots are declared to the oracle, not enforced by SimFs"),
 "C16": ("5.C16", "grammar-generated names x operations x front-ends inside a sentinel tree, optional failing first publication; world diff + confinement of every mutating call",
         "Sampled names/mutations/pre-states; the whole simulated world is diffed, atime included.",
         "read-only probes outside the tree are allowed"),
 "C17": ("5.C17", "seeded populations with dot-files, nested directories and temp files aged around the one-hour limit on a simulated clock; forced maintenance; deletion/alteration oracle",
         "Sampled populations; ages 'exactly at the limit' are constructible because the clock is simulated.",
         "production age limit compiled (cfg(test) off)"),
 "C18": ("5.C18", "single-fault enumeration: every library filesystem call of the fault-free run x every plausible errno; masking/validity/leak oracle, re-issue and follow-up battery",
         "Faults are enumerated completely per scenario (call x errno); scenarios are sampled by seed.",
         "a failing call has no effect; faults only inside library calls; ENOENT/ESTALE are documented absence"),
 "C19": ("5.C19", "both configuration matrices x umask; access mode and offset read from the simulated descriptor table at return; modes of published files",
         "Both matrices enumerated completely; umask/judge/checker/size dimensions sampled.",
         "descriptor state comes from the simulated kernel"),
 "C20": ("5.C20", "same scenario on four simulated filesystems with 0/10/100/2000 entries; call-kind multiset invariance, open-attempt, peak/residual descriptor and lock oracles from trace and descriptor table",
         "Sampled scenarios (operation x front-end x depth x checker x hit level); four population sizes each.",
         "descriptor accounting from the simulated per-process table"),
}

def main():
    checks = []
    for pid in sorted(CHECKS):
        ref, tech, text, note = CHECKS[pid]
        cat = "fault_enumeration" if pid in FAULT_ENUM else "exploration"
        checks.append({
            "property_id": pid,
            "quick_cmd": f"./check {pid} --tier quick",
            "thorough_cmd": f"./check {pid} --tier thorough",
            "evidence_file": f"/verif/evidence/{pid}.json",
            "replay_cmd_template": "./check replay {path}",
            "engine": "kismet-sim",
            "level_claimed": {"category": cat, "text": text, "design_ref": ref},
            "level_note": note,
            "technique": "deterministic simulation with fault injection: " + tech,
        })
    m = {
        "version": 1,
        "setup_cmd": "cd /verif/sim && CARGO_NET_OFFLINE=true cargo build --release --offline && ./target/release/kismet-sim selftest quick",
        "hooks": {
            "guard": "kismet_verif",
            "enable": "rustc cfg: RUSTFLAGS='--cfg kismet_verif' via /verif/sim/.cargo/config.toml, building /repo/src/lib.rs through the shadow manifest /verif/sim/shadow/Cargo.toml (same package name and dependencies, plus the kismet_vfs shim); /repo/Cargo.toml and Cargo.lock are untouched",
            "baseline_off_cmd": "cd /repo && cargo test --workspace --no-fail-fast --offline",
            "source_commits": HOOK_COMMITS,
            "add_only": True,
        },
        "engines": [{
            "name": "kismet-sim",
            "path": "/verif/sim",
            "serves_properties": sorted(CHECKS),
            "kind_free_text": "purpose-built deterministic simulator: in-memory POSIX filesystem (SimFs), simulated clock, scripted random source, per-process descriptor tables, baton-passing scheduler over real OS threads, fault/crash injection, one decision tape per run (seeded exploration, exact replay, tape shrinking)",
        }],
        "checks": checks,
        "not_applicable": [{
            "property_id": "C08",
            "reason": "the eviction planner is a pure, total function of an in-memory vector and an integer: no clock, I/O, shared state, interruption or fault for a simulator to control; its decision procedures are bounded-exhaustive enumeration or proof, not seeded search over schedules and faults (DESIGN.md section 6). It is exercised as a by-product inside C07/C17.",
        }],
        "notes": "All checks run through /verif/check, which rebuilds the verification build from /repo's working tree first (exit 2 on build failure, never 1). Default seed fixed (20260917); VERIF_SEED and VERIF_TIER are honoured. Genuine defects found and repaired are listed in known_findings.json (status fixed: <commit>) with their replay files under findings/.",
    }
    open("/verif/MANIFEST.json", "w").write(json.dumps(m, indent=1) + "\n")

main()
