#!/bin/bash
# usage: seeded_checks.sh <ID> <checks...>: applies /verif/seeded/<ID>/patch.diff to /repo,
# runs the checks, undoes the patch, appends to the log.
ID="$1"; shift
DST=/verif/seeded/$ID; LOG="$DST/confirm.log"
unset CARGO_TARGET_DIR
cd /repo && git apply "$DST/patch.diff" || exit 2
echo "## checks against the patch applied to /repo ($(date -u +%H:%M))" | tee -a "$LOG"
for c in "$@"; do
  out=$(/verif/check "$c" 2>&1); code=$?
  echo "[$c] exit=$code $(echo "$out" | grep -m1 -E 'violation class|harness error' | cut -c1-160)" | tee -a "$LOG"
  echo "$out" | grep -m1 -A1 'violation class' | tail -1 | cut -c1-400 | tee -a "$LOG"
done
cd /repo && git checkout -- . && git status --short
(cd /verif/sim && cargo build --release --offline -q 2>/dev/null)
