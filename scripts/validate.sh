#!/bin/bash
# Validates MANIFEST.json and every evidence file against the schemas in /root/.vp.
cd /verif || exit 2
python3-vt - <<'PY'
import json, jsonschema, glob, sys
ok = True
m = json.load(open('/verif/MANIFEST.json'))
jsonschema.validate(m, json.load(open('/root/.vp/MANIFEST.schema.json')))
es = json.load(open('/root/.vp/EVIDENCE.schema.json'))
ids = [c['property_id'] for c in m['checks']]
for pid in ids:
    f = f'/verif/evidence/{pid}.json'
    try:
        e = json.load(open(f)); jsonschema.validate(e, es)
        print(pid, e['tier'], e['coverage'].get('evaluations'), 'distinct', e['coverage'].get('distinct_nontrivial'), 'violations', e.get('violations'), round(e['wall_s']), 's')
        if e.get('violations'): ok = False
    except Exception as ex:
        ok = False; print(pid, 'INVALID', str(ex)[:200])
props = [json.loads(l)['id'] for l in open('/verif/properties.jsonl')]
na = [x['property_id'] for x in m.get('not_applicable', [])]
missing = [p for p in props if p not in ids and p not in na]
print('manifest ok; checks', len(ids), 'not_applicable', na, 'unaccounted', missing)
sys.exit(0 if ok and not missing else 1)
PY
